#!/usr/bin/env python3
"""Regenerates MANIFEST.json from props.py (single source of truth)."""
import json, os, sys
ROOT = os.path.dirname(os.path.abspath(__file__))
sys.path.insert(0, ROOT)
from props import PROPS, NOT_APPLICABLE, HOOK_COMMITS

ids = [json.loads(l)["id"] for l in open(os.path.join(ROOT, "properties.jsonl"))]
checks = []
for pid in ids:
    if pid not in PROPS:
        continue
    p = PROPS[pid]
    checks.append({
        "property_id": pid,
        "quick_cmd": f"./check {pid} quick",
        "thorough_cmd": f"./check {pid} thorough",
        "evidence_file": f"/verif/evidence/{pid}.json",
        "replay_cmd_template": f"./check {pid} --replay {{path}}",
        "engine": "vcheck",
        "level_claimed": {"category": p.get("level", "exploration"), "text": p["level_text"], "design_ref": p.get("design_ref", "DESIGN.md section 4 " + pid)},
        "level_note": p["level_note"],
        "technique": p["technique"],
    })
na = [{"property_id": pid, "reason": NOT_APPLICABLE.get(pid, "check not built yet; work in progress (see DESIGN.md section 4)")}
      for pid in ids if pid not in PROPS]
m = {
    "version": 1,
    "setup_cmd": "./setup.sh",
    "hooks": {
        "guard": "verif",
        "enable": "go build -tags verif (the driver passes -tags verif to every build of /repo code)",
        "baseline_off_cmd": "cd /repo && GOFLAGS=-mod=mod go test -vet=off -count=1 ./...",
        "source_commits": HOOK_COMMITS,
        "add_only": True,
    },
    "engines": [{"name": "vcheck", "path": "/verif/driver.py", "serves_properties": [c["property_id"] for c in checks],
                 "kind_free_text": "python driver that builds one Go test binary per property against /repo's working tree (module /verif/h, "
                                   "pgregory.net/rapid v1.3.0 generators + explicit enumerations), runs it in 16 seed-derived shards, "
                                   "replays known findings and corpus inputs, merges statistics into evidence and prints VIOLATION lines"}],
    "checks": checks,
    "not_applicable": na,
    "notes": "Property-based testing / fuzzing only. See DESIGN.md. Known defects of the unchanged tree are in known_findings.json.",
}
json.dump(m, open(os.path.join(ROOT, "MANIFEST.json"), "w"), indent=1)
print(f"{len(checks)} checks, {len(na)} not claimed")
