#!/bin/sh
# Builds every test binary once so that later checks only relink. Offline.
cd "$(dirname "$0")" && exec python3 driver.py --setup
