"""Per-property configuration of the driver: which Go test package decides the
property, its sub-checks with their case counts per tier, and the descriptive
text that goes into the evidence file."""

PROPS = {
    "C03": dict(
        pkg="c03",
        subs=[
            dict(name="enum", test="TestEnum", quick=1, thorough=1),
            dict(name="random", test="TestRandom", quick=1500, thorough=60000),
        ],
        technique="exhaustive enumeration + rapid random generation against a per-constraint reference model (big.Rat predicates)",
        level_text="exhaustive over all conjunctions of size 1-2 (and numeric type/bound/bound triples; size 3 in thorough) of a 133-constraint alphabet probed by 20 atoms; random search beyond (size 4, 70-digit decimals). Exploration: holds on everything enumerated, no proof for unbounded sizes.",
        level_note="trusted: the Go predicates of the model (types, ranges, comparison by exact rational, RE2 regexps); the evaluator's String() rendering of numbers to read results back",
        rule="enum: every conjunction of 1 and 2 constraints over the alphabet (20 atoms, 22 types/ranges, "
             "every comparison operator x every non-bool atom, !=null, 6 regexp constraints) and every "
             "(numeric type, numeric bound, numeric bound) triple in three operand orders, each probed with all "
             "20 atoms in both operand orders, as source text and through Value.Unify; thorough adds every "
             "conjunction of 3. random: conjunctions of 3-4 alphabet constraints, and 1-3 bounds over random "
             "decimals of up to 70 digits / exponents to +-400 probed with the neighbours of each operand. "
             "Non-trivial = at least 2 conjuncts of which at least one is a bound; distinct = distinct expression text.",
        assumptions=["oracle: per-constraint Go predicates over (kind, exact big.Rat / string / bytes), independent of the evaluator",
                     "an empty conjunction that the evaluator does not detect as bottom is allowed by the property (counted as class empty-undetected)"],
    ),
}

NOT_APPLICABLE = {}
HOOK_COMMITS = []
