"""Per-property configuration of the driver: which Go test package decides the
property, its sub-checks with their case counts per tier, and the descriptive
text that goes into the evidence file."""

PROPS = {
    "C03": dict(
        pkg="c03",
        subs=[
            dict(name="enum", test="TestEnum", quick=1, thorough=1),
            dict(name="random", test="TestRandom", quick=1500, thorough=60000),
        ],
        technique="exhaustive enumeration + rapid random generation against a per-constraint reference model (big.Rat predicates)",
        level_text="exhaustive over all conjunctions of size 1-2 (and numeric type/bound/bound triples; size 3 in thorough) of a 133-constraint alphabet probed by 20 atoms; random search beyond (size 4, 70-digit decimals). Exploration: holds on everything enumerated, no proof for unbounded sizes.",
        level_note="trusted: the Go predicates of the model (types, ranges, comparison by exact rational, RE2 regexps); the evaluator's String() rendering of numbers to read results back",
        rule="enum: every conjunction of 1 and 2 constraints over the alphabet (20 atoms, 22 types/ranges, "
             "every comparison operator x every non-bool atom, !=null, 6 regexp constraints) and every "
             "(numeric type, numeric bound, numeric bound) triple in three operand orders, each probed with all "
             "20 atoms in both operand orders, as source text and through Value.Unify; thorough adds every "
             "conjunction of 3. random: conjunctions of 3-4 alphabet constraints, and 1-3 bounds over random "
             "decimals of up to 70 digits / exponents to +-400 probed with the neighbours of each operand. "
             "Non-trivial = at least 2 conjuncts of which at least one is a bound; distinct = distinct expression text.",
        assumptions=["oracle: per-constraint Go predicates over (kind, exact big.Rat / string / bytes), independent of the evaluator",
                     "an empty conjunction that the evaluator does not detect as bottom is allowed by the property (counted as class empty-undetected)"],
    ),
}

PROPS["C06"] = dict(
    pkg="c06",
    subs=[
        dict(name="small", test="TestSmall", quick=1, thorough=1),
        dict(name="arith", test="TestArith", quick=20000, thorough=600000, shards=8),
        dict(name="cmp", test="TestCmp", quick=10000, thorough=300000, shards=4),
        dict(name="divmod", test="TestDivMod", quick=10000, thorough=300000, shards=4),
        dict(name="literal", test="TestLiteral", quick=10000, thorough=300000, shards=4),
        dict(name="builtin", test="TestBuiltin", quick=10000, thorough=300000, shards=4),
    ],
    technique="rapid random generation + exhaustive boundary set against a math/big reference model (exact rationals, own literal-grammar evaluator)",
    level_text="exploration: every operator on every pair of a 57-value boundary set (2^63, 2^64, 10^34 +-1, halves, tiny/huge exponents) exhaustively; random operands up to 60 digits and exponents +-600; literal spellings drawn from the full spec grammar. The oracle is exact rational arithmetic, so any wrong digit, kind or rounding is visible.",
    level_note="trusted: math/big; the evaluator's own number printing is used to read results back (and is itself checked by the literal round-trip sub-check); integer results beyond 34 digits are excluded by construction (known finding F8)",
    rule="arith: a op b for op in + - * /, operands from a generator mixing boundary constants, ints to 40 digits, decimals to 60 digits, exponents to +-600; "
         "result must be exact (ints always; floats when representable in 34 digits, else the exact result correctly rounded to 34 digits), kind int iff both operands int and op != /. "
         "cmp: six comparison operators against big.Rat.Cmp (same value in other kind/spelling, last-place neighbours), strings and bytes bytewise. "
         "divmod: div/mod/quo/rem against big.Int DivMod/QuoRem plus the identities, zero divisor must error. "
         "literal: spelling drawn from the spec grammar (decimal, hex, octal, binary with underscores, SI/IEC multipliers with fractions, float forms) vs own value computation, then String/JSON/Syntax/Append read-back. "
         "builtin: math.Floor/Ceil/Trunc/Round/Abs/MultipleOf/Pow against exact models. "
         "Non-trivial: result needs >15 digits or operands differ in kind or sign (arith/cmp), negative operand or long operand (divmod), base prefix/multiplier/underscore/exponent (literal), fractional or negative argument (builtin).",
    assumptions=["correct rounding accepts either tie-breaking rule (|got-exact| <= half a unit of the 34th digit)",
                 "math.Pow is only required to be within 2 units of the 34th digit",
                 "numeric builtins other than MultipleOf are only given operands of at most 34 digits (they work in the 34-digit decimal context by documentation); F8, F36, F37, F38 are repaired and their witnesses are replayed as regression inputs"],
)

PROPS["C09"] = dict(
    pkg="c09",
    subs=[
        dict(name="parse-corpus", test="TestParseCorpus", quick=1, thorough=1),
        dict(name="parse", test="TestParse", quick=15000, thorough=600000, shards=8),
        dict(name="quote", test="TestQuote", quick=40000, thorough=1500000, shards=4),
        dict(name="agree", test="TestAgree", quick=30000, thorough=1000000, shards=4),
        dict(name="numinfo-reuse", test="TestNumInfoReuse", quick=20000, thorough=500000, shards=2),
    ],
    technique="rapid generation (corpus mutation, token soup, deep nesting, hostile string pool) with invariant, round-trip and three-way differential oracles",
    level_text="exploration: every embedded corpus source in 6 parser modes, plus mutated/soup/deep inputs for totality and position sanity; quoting round trip over a hostile string pool x every Form option; three-way agreement of literal package, scanner and parser on near-valid spellings.",
    level_note="trusted: ast.Walk visiting order (children in source order); Go's utf8/strings; a Go stack overflow or escaping panic is caught by the journal and reported as a violation",
    rule="parse: input = corpus file with 0-4 byte/token mutations | token soup of 1-30 scanner tokens with hostile neighbours | one opener repeated 10..100000 times | random bytes; ParseFile/ParseExpr in 6 option sets must return (no panic), every error position and node range must lie in [0,len], Pos<=End, children inside parents, siblings ordered. Non-trivial = at least one syntax error and more than one node (error recovery exercised). "
         "quote: string from a pool of quotes/backslashes/#-runs/newlines/controls/non-BMP/invalid UTF-8 (bytes) x form {String,Label,Bytes} x {ASCIIOnly,GraphicOnly,OptionalHashes,TabIndent n,OptionalTabIndent n}: Unquote(Quote(s))==s, scanner yields one STRING token, ParseExpr one BasicLit with the same text. Non-trivial = contains quote, backslash, #, newline, control, non-BMP or invalid rune. "
         "agree: near-valid number/string/identifier spellings (valid base + 0-2 single-character edits): literal.ParseNum/Unquote/ast.IsValidIdent accept <=> scanner yields one clean token of the class <=> ParseExpr yields that literal. "
         "numinfo-reuse: sequences of 2-4 near-valid number spellings parsed with one reused literal.NumInfo must give what a fresh NumInfo gives (history independence); non-trivial = the sequence mixes rejected and accepted spellings.",
    assumptions=["comment groups are not required to lie inside their owner's range (doc comments precede the node by design)",
                 "nodes without an absolute position are counted, not checked",
                 "String/Label forms are documented as lossy for invalid UTF-8 and are only exercised with valid UTF-8; Bytes forms with arbitrary bytes"],
)

PROPS["C14"] = dict(
    pkg="c14",
    schedule_dependent=True,
    subs=[
        dict(name="mvs", test="TestMVS", quick=6000, thorough=200000, shards=12),
        dict(name="semver", test="TestSemver", quick=40000, thorough=1000000, shards=4),
        dict(name="modreq", test="TestModReq", quick=1500, thorough=60000, shards=4),
        dict(name="par", test="TestPar", quick=4000, thorough=150000, shards=4),
    ],
    technique="rapid-generated requirement graphs against a brute-force fixpoint model, with permuted requirement lists and perturbed schedules; SemVer triples against an own SemVer 2.0 implementation and golang.org/x/mod/semver",
    level_text="exploration: random graphs up to 8 modules x 4 versions (diamonds, cycles, requirements on the main module, unloadable modules), each run 5 times with permuted requirement lists and yield/sleep perturbation inside Required; BuildList, Req (reproduces + minimal), the incremental Graph API, Upgrade and Downgrade are compared with a closure-and-maximum model. SemVer: validity, accessors, comparison, antisymmetry, transitivity and Sort over valid and near-valid spellings.",
    level_note="trusted: the model's closure/maximum computation and the reference SemVer comparator (written from semver.org); the Go scheduler is perturbed, not owned",
    rule="mvs: graph = requirement lists drawn over (2-8 modules) x (1-4 versions from a pool with pre-releases, numeric vs alphanumeric identifiers); non-trivial = some module is reached at two or more versions. "
         "semver: triples from a generator of valid and near-valid versions (leading zeros, empty/odd identifiers, huge numbers, build metadata, shorthands, missing v); non-trivial = at least two valid versions, one with a pre-release; half of the triples are neighbours (one component of the previous version replaced, dropped or appended, with identifiers around 2^64 and 10^20). "
         "modreq: main module with 1-7 roots over module files served by an in-memory registry with latency, loaded through modrequirements.Requirements.Graph under GOMAXPROCS 1/2/3/8 (the width of its par.Queue); the pruned graph (roots + their direct requirements) must be fully loaded and select the maxima; non-trivial = a module required at two versions. "
         "par: par.Queue of width 1-4 with nested adds (Idle only after every task finished, never more than width active), par.Work (each item once), par.Cache (function once per key).",
    assumptions=["schedule perturbation (Gosched/sleep in Required) explores interleavings of the 10 traversal goroutines only probabilistically"],
)

PROPS["C10"] = dict(
    pkg="c10",
    subs=[
        dict(name="out", test="TestOut", quick=8000, thorough=400000, shards=8),
        dict(name="in", test="TestIn", quick=8000, thorough=400000, shards=8),
    ],
    technique="rapid-generated data trees and JSON texts; round trip and differential against Go encoding/json (token stream, UseNumber)",
    level_text="exploration: ground-truth data trees (adversarial string/number pools, depth 3) rendered as CUE by an independent renderer or through ctx.Encode, marshalled by three JSON paths and read back with encoding/json; JSON texts with every escape spelling, whitespace kind, number spelling, deep nesting, duplicate keys, lone surrogates and one-step invalid mutations decoded by three CUE paths and compared with encoding/json's reading.",
    level_note="trusted: Go encoding/json as the reference reader/validator; dgen's independent CUE renderer (letters/digits verbatim, everything else \\u escapes); the cue.Value accessor API used to read decoded data",
    rule="out: tree from dgen (YAML/CUE-hostile string pool, number pool around 2^53/2^63/2^64/10^34/huge exponents) -> CUE value (source text or ctx.Encode) -> MarshalJSON / json.Marshal(v) / builtin json.Marshal -> encoding/json must read the same keys (declaration order), strings, exact numbers. "
         "in: JSON text of a tree with random escape spellings and whitespace (+ classes deep, duplicate-keys, lone-surrogate, mutated) -> json.Extract / json.NewDecoder / builtin json.Unmarshal must equal encoding/json's reading and re-marshal equivalently; invalid text must be rejected; json.Valid must agree with encoding/json.Valid. "
         "Non-trivial = tree has depth >= 3, a string with a control/non-ASCII/quote/backslash character, or a number with exponent or more than 17 characters; mutated-invalid texts count as non-trivial.",
    assumptions=["duplicate conflicting keys and lone surrogate escapes are accepted as either an error or encoding/json's reading (RFC 8259 leaves them unspecified)",
                 "object keys are NFC-normalised by construction (known finding F10)"],
)

PROPS["C11"] = dict(
    pkg="c11",
    subs=[
        dict(name="pool", test="TestPool", quick=1, thorough=1, shards=4),
        dict(name="roundtrip", test="TestRoundTrip", quick=6000, thorough=300000, shards=8),
        dict(name="json-as-yaml", test="TestJSONAsYAML", quick=6000, thorough=300000, shards=4),
    ],
    technique="rapid-generated data trees over an adversarial YAML string/key pool; encode->decode round trip against the generator's ground truth; differential JSON-decoder vs YAML-decoder on generated JSON texts",
    level_text="exploration: every string of a ~300-entry adversarial pool (YAML 1.1/1.2 implicit-type spellings, indicators in first/inner/last position, document markers, block-scalar edge cases, control/format/non-BMP runes, blank edges) exhaustively as value, key, list element and nested; random trees mixing them; three encoder entry points (yaml.Encode, builtin yaml.Marshal, EncodeStream) and two decoders; JSON texts through yaml.Extract vs json.Extract vs encoding/json.",
    level_note="trusted: dgen's independent CUE renderer and the cue.Value accessors used to read decoded data; Go encoding/json for the JSON half",
    rule="roundtrip: tree from dgen (strings/keys from the YAML-hostile and CUE-hostile pools mixed with random runes, numbers of both kinds incl. 1.0, 1e3, big ints, -0) -> CUE value -> YAML -> decode -> must equal the tree (strings and keys identical, number value and int/float kind, order, nesting). Non-trivial = some string/key is in the hostile pool, has blank edges or a control/format character. "
         "pool: each pool string alone in 5 positions (exhaustive). json-as-yaml: JSON text with random escapes/whitespace -> yaml.Extract must equal json.Extract and encoding/json; non-trivial = has an escape, tab/CR whitespace, or depth >= 2.",
    assumptions=["strings are valid UTF-8 and NFC (known finding F10)"],
)

PROPS["C01"] = dict(
    pkg="c01",
    subs=[
        dict(name="order", test="TestOrder", quick=12000, thorough=400000, shards=16),
    ],
    technique="rapid witness-first typed program generator + random semantics-preserving rearrangement; metamorphic oracle on an order-insensitive canonical form of the evaluated value",
    level_text="exploration: generated programs (fragment tier T1: data, types, bounds, references, arithmetic/interpolation, lists, nested structs, 1-3 conjuncts per field, un-nested disjunctions and defaults, types through definition references, list comprehensions, discriminated struct disjunctions, selector and wrapped references, 10% programs with one deliberately conflicting conjunct) are rearranged (declaration permutation at every level, operand swap, split x: a & b, duplicated conjuncts, & _, sole-embedding wrapper, partition over 2-3 files) and must evaluate to the same canonical value.",
    level_note="trusted: the canonical form (fields sorted, disjuncts/defaults as sets, bounds as sets, errors reduced to INCOMPLETE/ERR, closedness flags) computed from the finalized adt.Vertex; when either side has a fatal error only the presence of a fatal error is compared (known finding F2)",
    rule="P = witness-first typed program (tier T1), P' = random rearrangement of P; canon(eval P) must equal canon(eval P'), each evaluated in a fresh context. Non-trivial = P' differs textually from P and P has a conjunction, a disjunction, close() or a repeated label; distinct = distinct (P, P') text pair.",
    assumptions=["fragment tier T1; tiers T2+ (close, optional fields, patterns, ellipsis, embedded literals) are excluded because the unchanged tree is order-dependent there (known findings F14/F27 family); run with VERIF_TIER_MAX=2 to see them",
                 "references are acyclic by construction (known finding F3)"],
)

PROPS["C07"] = dict(
    pkg="c07",
    subs=[
        dict(name="roundtrip", test="TestRoundTrip", quick=6000, thorough=200000, shards=16),
        dict(name="corpus", test="TestCorpus", quick=1, thorough=1, shards=8),
    ],
    technique="rapid witness-first typed program generator; round trip Value.Syntax(profile) -> format.Node -> compile in a fresh context, compared on an order-insensitive canonical form (or JSON for data profiles)",
    level_text="exploration: generated programs (tier T1) printed under 6 option profiles (default, All, Final, Concrete, Docs+Attributes, Definitions+Hidden+Optional), at the root and at a random struct-valued sub-path; the printed text must compile on its own and evaluate to an equivalent value. Corpus files are run as additional inputs and their failures are listed, not gated.",
    level_note="trusted: canon (see C01), format.Node (checked by C08), MarshalJSON (C10). Only programs whose evaluation has no fatal error are in the domain.",
    rule="program = witness-first typed program (tier T1), profile and optional sub-path drawn at random; non-trivial = value not concrete, or program has a disjunction, close(), pattern, interpolation or arithmetic; distinct = (program text, profile, path).",
    assumptions=["known finding F32 (let hoisted to the wrong scope when a field is nested inside a field of the same label) is excluded by construction",
                 "Final/Concrete profiles are only applied to concrete values"],
)

PROPS["C20"] = dict(
    pkg="c20",
    subs=[
        dict(name="trim", test="TestTrim", quick=2500, thorough=80000, shards=12),
        dict(name="trim-corpus", test="TestTrimCorpus", quick=400, thorough=20000, shards=4),
    ],
    technique="rapid-generated packages (schema layer + data layer repeating what the schema implies) and mutated trim testdata; metamorphic oracle: evaluated result before == after trim.Files, idempotence of trim",
    level_text="exploration: packages in six schema styles (definition + pattern, bare pattern, label alias, comprehension over a list, comprehension over a struct, embedded definitions) with defaults, disjunctions, nested structs and lists, data that repeats a random subset of the implied values, split declarations, 1-2 files in either order; plus the repository's trim testdata inputs with one literal mutated.",
    level_note="trusted: MarshalJSON of the evaluated package as the rendering of 'fully evaluated result with defaults resolved' (C10 checks it); format.Node/format.Source to compare files",
    rule="package = schema style x 1-8 fields with defaults/constraints x 1-3 instances repeating implied values; oracle: trimmed files format, parse and build, final(before) == final(after) (JSON, or per-field JSON/error status when not concrete), second trim changes nothing. Non-trivial = trim removed something and the package has a default or a comprehension; distinct = package text.",
    assumptions=["an error returned by trim.Files is a refusal, not a silent change, and is counted (class trim-error)"],
)

PROPS["C02"] = dict(
    pkg="c02",
    timeout_quick=1200,
    case_timeout=200,
    subs=[
        dict(name="corpus", test="TestCorpus", quick=1, thorough=1, shards=16),
        dict(name="pipeline", test="TestPipeline", quick=3000, thorough=20000, shards=16, shrinktime="60s"),
        dict(name="history", test="TestHistory", quick=600, thorough=4000, shards=8, shrinktime="60s"),
    ],
    technique="rapid generation (corpus mutation, mutated generated programs, wild semantic fragments: cycles, structural cycles, conflicts, comprehensions, builtins) with a crash/hang/repeatability invariant; journalled cases attribute Go fatal errors",
    level_text="exploration: every embedded corpus source unmodified, plus generated inputs, through parse -> build -> Validate -> Validate(Concrete) -> Syntax(Final/default/All+Docs)+format -> MarshalJSON -> yaml.Encode, twice in one process (fresh contexts) and for a subsample in another process; a panic, a Go fatal error (stack overflow, deadlock) or differing transcripts is a violation; exceeding the time bound is recorded as inconclusive.",
    level_note="trusted: the journal written before each case attributes a process death to its input; 20 s per input is taken as 'not bounded' only in the sense of inconclusive (listed in evidence, never a violation)",
    rule="input = corpus file with 0-3 byte/token mutations | witness-first generated program (tier T2) with 0-2 mutations | 1-4 wild fragments (reference cycles, structural cycles, conflicts, defaults, comprehensions, builtins, closedness) with 0-1 mutations | operator/builtin templates with hostile constants (2^31, 2^63, 2^64, 50-digit integers, 1e400, ...) | malformed string literals built from openers and hostile pieces (invalid UTF-8, CR, escapes, quotes at line starts) | declaration soup: a struct body of 2-5 declarations drawn from 60 forms (regular/optional/required/hidden/definition fields, true/false/unresolved comprehensions, let, patterns, ellipsis, embedded scalars, bounds, validators, disjunctions, lists), optionally unified with another operand, placed as a field, behind a reference, in a definition or as a list element type. history: 1-4 generated inputs evaluated in sequence, then five fixed sentinel programs must still give their original transcript (no state leaks between evaluations in one process). Non-trivial = the input parses and reaches the evaluator; distinct = input text.",
    assumptions=["no input class is excluded (the former exclusion of required fields ended with the repair of F1)"],
)

PROPS["C15"] = dict(
    pkg="c15",
    subs=[
        dict(name="hostile-zip", test="TestHostileZip", quick=3000, thorough=120000, shards=8),
        dict(name="tree", test="TestTree", quick=2500, thorough=100000, shards=8),
    ],
    technique="rapid-generated file trees and header-level forged zip archives; round trip Create->CheckZip->Unzip against the generator's ground truth, containment invariant over a sandbox directory walk, three-way agreement of CheckFiles / CheckDir / CheckZip",
    level_text="exploration: zips written with archive/zip directly (absolute and .. paths, backslashes, symlink/dir/pipe/device/setuid modes, duplicate and case-colliding names, forged declared sizes in both directions, oversized module and licence files declared in the header, nested cue.mod, local-module file, trailing garbage); extraction into a sandbox with sentinel files, full walk before and after. File trees from a name generator (unicode, case variants, dots, reserved names, long paths, vendor/VCS/submodule content).",
    level_note="trusted: archive/zip as the hostile archive writer, the sandbox walk, the in-memory FileIO; sizes near the 500 MiB module limit are not materialised (only the 16 MiB module-file/licence limits are reached, through forged headers)",
    rule="hostile-zip: 1-5 entries with names from a 70-name hostile pool x modes x forged sizes; after Unzip (success or error) nothing outside the target may be created/modified/removed, only regular files and directories inside, no file larger than declared; an accepted archive must pass CheckZipFile and extract only files CheckZip lists as valid. "
         "tree: file list -> CheckFiles, Create, CheckZip, Unzip, CheckDir: Create succeeds iff CheckFiles has no error, its archive passes CheckZip with the same valid set, Unzip reproduces exactly the valid files byte for byte, CheckDir never lists a file as valid that CheckFiles rejects. Non-trivial = some name outside [a-z/.]+ (tree) / every hostile archive.",
    assumptions=["files that CheckDir/CreateFromDir omit by design (vendor, VCS, submodules) are compared only in the direction 'never valid in one and invalid in the other'"],
)

PROPS["C18"] = dict(
    pkg="c18",
    schedule_dependent=True,
    subs=[
        dict(name="flow", test="TestFlow", quick=1500, thorough=60000, shards=16, shrinktime="60s"),
    ],
    technique="rapid-generated task DAGs with a harness-owned schedule (every Runner blocks on its own gate; a generated sequence decides which running task is released next, singly or in bursts); invariants over the recorded history plus a final-state model",
    level_text="exploration: DAGs of 2-10 tasks with direct, through-field, nested-field and computed dependencies, tasks that only appear after an earlier task filled a value, optional injected failure or dependency cycle; the release order is a generated value, so every completion order the generator draws is actually executed.",
    level_note="trusted: the harness gates (channel close) and its mutex-protected history; a 2 ms settle window decides which tasks count as running at the same time (affects only which schedules are explored); Run not returning within 60 s after all gates are open is reported as a deadlock",
    rule="case = DAG + release sequence (+ failure | cycle). Checked: each task started at most once; at its start every ancestor had completed successfully and its view of 'in' is the concrete sum its dependencies filled; without failure every task ran once and the final configuration holds every out = model value; with a failure Run errors and no descendant of the failed task started; a cycle is reported as an error. Non-trivial = DAG has a task with two dependencies or an indirect dependency and at least two tasks were running at the same time.",
    assumptions=["tools/flow documents Task.Value as callable inside Run; the harness reads it there"],
)

PROPS["C17"] = dict(
    pkg="c17",
    schedule_dependent=True,
    subs=[
        dict(name="tidy", test="TestTidy", quick=400, thorough=20000, shards=12),
        dict(name="modfile", test="TestModFile", quick=5000, thorough=200000, shards=4),
    ],
    technique="rapid-generated module universes served by an in-memory registry with latency; validity predicates over Tidy's output (sufficiency, no unused entry, MVS consistency), fixpoint (CheckTidy, idempotence) and order/timing metamorphic relation; module-file Parse/Format round trip with unknown-field rejection",
    level_text="exploration: universes of 1-6 modules x 1-3 versions (incl. a pre-release) with 1-2 packages each, random acyclic imports with and without major-version suffix, per-version module files; a main module with 1-2 packages and existing deps that are right, stale, too low or missing; optionally an import nobody provides. Tidy's output is checked with predicates, not one expected answer.",
    level_note="trusted: the import-closure / MVS predicates written for this check; the in-memory registry (fstest.MapFS); modules only import modules of higher index (no import cycles)",
    rule="tidy: universe + main module; checked: Tidy errs iff an import is unresolvable; every import in the closure (computed on the tidied versions) finds its module in deps; every dep provides a package in that closure; each dep satisfies the requirements of every selected module, is not downgraded, and is one of {existing, required by some module version of the universe, latest} (the requirement-satisfaction clause is counted but not gated: known finding F52); CheckTidy accepts the output and rejects an input that Tidy changes; Tidy(Tidy(x)) == Tidy(x); permuting file names, import order, deps order and registry delays gives the identical file. Non-trivial = an existing dep is upgraded or at least 3 deps result. "
         "modfile: generated module file value -> text -> Parse -> Format -> Parse must be equal; one appended unknown/malformed field must make Parse fail.",
    assumptions=["'latest' = highest release version, or highest pre-release when there is no release (modload.LatestVersion's documented behaviour)"],
)

PROPS["C16"] = dict(
    pkg="c16",
    level="fault_enumeration",
    schedule_dependent=True,
    tools={"fetcher": "worker/fetcher"},
    timeout_quick=1500,
    subs=[
        dict(name="crash-points", test="TestCrashPoints", quick=1, thorough=1, shards=16),
        dict(name="concurrent", test="TestConcurrent", quick=25, thorough=600, shards=8),
    ],
    technique="fault enumeration: every (effect system call, N-th call) of a traced Cache.Fetch becomes a SIGKILL crash point via strace injection, single and double crashes and registry body faults, each followed by a clean fetch checked against the generator's ground truth; rapid-generated concurrent multi-process histories",
    level_text="fault enumeration: for each module shape the worker's fetch is traced once, then re-run once per crash point with SIGKILL delivered on entry to that system call (between two file-system effects), for openat/mkdirat/rename*/unlink*/write/fchmod*/flock; after every interrupted history FetchFromCache must be not-found or complete, cached zip/mod files absent or identical to the registry's, and a clean fetch must return exactly the module's files; registry faults (error mid-body, short body) must surface as errors; 2-4 processes x 1-4 goroutines fetch concurrently with registry latency, optionally with one process killed.",
    level_note="trusted: strace's inject semantics (signal on syscall entry, per-thread per-syscall counters) and runtime.LockOSThread pinning the fetch to one thread (verified by the dry run: all effect calls between the markers belong to one thread); the worker's ground-truth file list; no source hook is added to /repo",
    rule="crash-points: enumerate all crash points of 3 module shapes (thorough: 33 shapes, every point also followed by a second crash); non-trivial = the kill left some file in the cache directory (partial state) or a registry fault was injected; distinct = (module shape, crash points, fault). concurrent: k processes x m goroutines on one cache directory with seed-derived registry delays.",
    assumptions=["kill points are on entry to a system call: a crash in the middle of a single write(2) (torn write) is not produced",
                 "the Go scheduler and the kernel decide the interleaving of the concurrent histories; they are perturbed, not owned"],
)

PROPS["C19"] = dict(
    pkg="c19",
    race=True,
    schedule_dependent=True,
    timeout_quick=1500,
    subs=[
        dict(name="concurrent", test="TestConcurrent", quick=250, thorough=1500, shards=16),
        dict(name="immutable", test="TestImmutable", quick=1500, thorough=8000, shards=8),
    ],
    technique="rapid-generated programs and call multisets executed by 2-16 goroutines on one shared value under the Go race detector (halt_on_error), each result compared with a sequential baseline on a separately compiled copy; canonical form of the shared value before/after",
    level_text="exploration: witness-first programs (tier T2 with all features) shared in the 'deeply pre-walked' state or in the 'walked' state (every node validated and iterated, no value-deriving method called yet), 28 operations (lookups, iteration, Walk, Unify, FillPath, Validate x3, Default, Eval, Syntax x3, Decode x2, MarshalJSON, yaml.Encode, Kind, Allows, Subsume, Equals, Expr, ReferencePath, Path/Pos/Doc, scalar accessors), start barrier and Gosched skew; a sixth of the cases use an independent context per goroutine instead; a third are 'burst' cases: 1-12 rounds in which all goroutines, released together by a spin barrier, run operations whose first use with a new name touches process-wide state (FillPath/LookupPath/Compile with a never-seen label, Decode into a never-seen Go struct type whose field names match case-insensitively). Sub-check immutable (sequential): a fully evaluated value is fingerprinted (conjuncts, arcs, base value of every finalized vertex) before any cue.Value method is called, every operation then runs once on one goroutine, and the fingerprint must be unchanged.",
    level_note="trusted: the Go race detector's happens-before analysis (a race report kills the process and the journalled case is the replay); the Go scheduler is not owned, so a race that needs one specific interleaving may be missed in a given run",
    rule="concurrent: case = program + state {deep, walked} + mode {shared, contexts, burst} + per-goroutine call sequences (1-6 calls from 28 operations) + skew; checked: no race report, every call returns what the same call returns alone (the baseline uses different fresh names than the concurrent phase, so it warms up nothing), canon(shared value) unchanged. Non-trivial = at least two goroutines executed calls that finalise or derive values (Unify, FillPath, Validate, Default, Eval, Syntax, Decode). immutable: case = program + one sequence of 1-10 operations (+ the four first-use operations); non-trivial = more than 3 finalized vertices and at least 3 distinct operations.",
    assumptions=["the shared value is pre-walked before it is shared, either deeply (Fields(All), List, Default, three Syntax profiles and MarshalJSON on every sub-value) or by validation and iteration only: sharing a fresh or merely validated value races on the unchanged tree (known finding F19, replayed as witness); first-use mutations of such values are looked for sequentially by the immutable sub-check instead",
                 "programs whose evaluation contains a fatal error are skipped (they still race after the deep pre-walk)"],
)

PROPS["C08"] = dict(
    pkg="c08",
    subs=[
        dict(name="corpus", test="TestCorpus", quick=1, thorough=1, shards=16),
        dict(name="fmt", test="TestFmt", quick=4000, thorough=20000, shards=16),
    ],
    technique="corpus enumeration + rapid generation (token mutations, whitespace/comment mutations, generated programs printed with a random layout); oracles: parse(fmt(x)) has the same position-free tree incl. comment attachment, fmt(fmt(x)) == fmt(x), and for -s evaluation equivalence",
    level_text="exploration: every embedded corpus source with and without -s, plus mutated and generated inputs; the formatter in use is the default one (cue/format -> internal/pretty, FormatV2).",
    level_note="trusted: the parser (C09) to read both sides; the structural dump (node kinds, operators, identifiers, literals by decoded value, attributes verbatim, comment groups under their owner with doc/line class); canon for the -s meaning check",
    rule="input parses (else skipped); format.Source must succeed, its output must parse to the same dump (without -s), keep every comment in order and under the same owner, and be a fixed point; with -s the comment count and the evaluated meaning must be preserved. Non-trivial = input has a comment or a multi-line list/call/struct.",
    assumptions=["import declarations may be regrouped by the formatter: only the import specs are compared",
                 "three gating modes: strict (unmodified corpus files and canonically printed generated programs: every clause gated), layout (generated programs with a random comment-free layout: everything but idempotence), lenient (mutated inputs and layouts with inserted comments: only 'formats and the output parses'); what the lenient mode sees but does not gate is counted per class and is covered by known findings F54 F58 F59 F62",
                 "comment attachment is compared per top-level declaration, not per owner node (the parser derives the owner from layout)"],
)

PROPS["C12"] = dict(
    pkg="c12",
    tools={"cue": "repo:cmd/cue"},
    timeout_quick=1500,
    subs=[
        dict(name="cli", test="TestCLI", quick=70, thorough=400, shards=16, shrinktime="90s"),
    ],
    technique="rapid-generated data packages and CLI flag sets run through the cue binary built from the working tree; round trip export -> independent reader (encoding/json, go.yaml.in/yaml/v3, pelletier/go-toml/v2 used directly) and export -> cue import -> export --out json; exit-status oracle for non-concrete and erroneous packages",
    level_text="exploration: ground-truth data trees (adversarial strings/keys, both number kinds; TOML-safe subset for TOML) written as CUE by an independent renderer into 1-2 files with or without a package clause, exported with --out or -o file.ext, optionally --escape and -e path; the exported text is read by an independent reader and must equal the ground truth; importing it back and exporting JSON must reproduce the original JSON; non-concrete and conflicting packages must exit non-zero.",
    level_note="trusted: the independent decoders, dgen's CUE renderer, process exit codes; each case runs 4-6 cue processes in a scratch directory",
    rule="case = tree x encoding {json,yaml,toml,cue} x flags {--out | -o file, --escape, -e path, package vs file arguments, 1 or 2 files} x {ok, non-concrete, conflicting}. Non-trivial = a non-default flag, a non-ASCII string, a key that is not a plain identifier, or an object inside a list.",
    assumptions=["YAML strings covered by C11's known findings (F10 F11 F20 F34a F47 F48) are excluded here too when the target encoding is YAML",
                 "TOML: integers within int64; a null value must make the TOML export fail (F12, repaired)",
                 "JSON: strings containing U+FEFF are excluded when the target encoding is JSON (known finding F23: cue import rejects the file cue export wrote)"],
)

PROPS["C13"] = dict(
    pkg="c13",
    subs=[
        dict(name="schema", test="TestSchema", quick=1500, thorough=6000, shards=16),
    ],
    technique="rapid-generated composed schemas and instances; differential against an own JSON Schema validator for the keyword subset, itself cross-checked per case by python jsonschema (Draft202012Validator) when available",
    level_text="exploration: schemas composed to depth 2-3 from type (single/list), enum and const (scalars and composite values: objects inside arrays, nesting, empties), numeric bounds (small, and at the edges of int64/2^53/1e19) and string bounds, multipleOf, pattern, properties, required, additionalProperties, patternProperties, min/maxProperties, items, min/maxItems, uniqueItems, contains, allOf/anyOf/oneOf/not (including 3-4 type-only branches), $defs/$ref; 8 instances per schema, a third of them a const/enum value or bound of the schema or a near miss of it (one member added, removed or changed, an element appended, a number moved by one); a verdict counts only when the Go validator and python jsonschema agree.",
    level_note="trusted: the ~300-line Go validator (validator.go) and python jsonschema 4.26 as its cross-check; a disagreement between the two is my bug and the case is skipped (counted), never reported",
    rule="schema accepted by jsonschema.Extract (else counted as rejected at import, which the property allows): for each instance, inst & CUE validates as concrete <=> instance valid per the oracle; and the JSON Schema generated back from that CUE must not reject an instance the oracle accepts (Generate is documented as best-effort/permissive, so only this direction is checked). Non-trivial = schema has >= 2 keywords of which >= 1 combinator or object keyword, and the instance set contains both a valid and an invalid instance.",
    assumptions=["integral floats (1.0) are not generated: the importer distinguishes int/float where JSON Schema does not (documented in the vendored suite's skip list, finding F13)",
                 "if/then/else is not generated in the registered tier (known finding F29 family); VERIF_TIER_MAX=1 enables it",
                 "type lists [integer, number] and required+additionalProperties:false without properties are excluded (known findings F18, F29)",
                 "object-bearing const/enum values: not next to other keywords at the root (F70), not two of one kind in an enum (F81), not below contains (F71), not next to patternProperties (F27/F70); the regeneration direction skips schemas with a bound that float64 rounding tightens (F80)"],
)

PROPS["C05"] = dict(
    pkg="c05",
    subs=[
        dict(name="closedness", test="TestClosedness", quick=20000, thorough=40000, shards=16),
    ],
    technique="rapid-generated schema/data pairs against an independent membership checker written from the spec (closing groups per definition reference, close() one level, embeddings widen, patterns, ellipsis, required fields)",
    level_text="exploration: schemas built from struct literals with regular/optional/required fields over labels {a,b,c,ab}, pattern constraints ([string], [=~\"^a\"], [\"a\"|\"b\"]), '...', embeddings, close(), references to up to 2 top-level definitions and conjunctions of such terms, nested to depth 3; data structs over the same labels; verdict 's & d validates as concrete' compared with the model in both directions (no silent gain in closed structs, no rejection by open ones, optional constraints on absent fields never fail).",
    level_note="trusted: the membership model (units, closing groups, leaf extensions) of c05_test.go; leaves are a small set of types and atoms whose unification is decided by a bit-set model",
    rule="pair (schema, data) from the generators; non-trivial = the schema contains a closing construct (close or a definition reference) and the data has a field that the outermost schema literal does not declare; distinct = program text.",
    assumptions=["a definition embedded in one conjunct and referenced directly in another is excluded (known finding F14), as is close() inside an embedded literal (known finding F27)",
                 "a literal that embeds a definition has only scalar-valued own fields (the spec is silent on recursive closing of the host's nested fields)"],
)

PROPS["C04"] = dict(
    pkg="c04",
    subs=[
        dict(name="disjunction", test="TestDisjunction", quick=2500, thorough=15000, shards=16),
        dict(name="enum", test="TestEnum", quick=1, thorough=1, shards=16),
    ],
    technique="exhaustive enumeration of two-level marked disjunction products plus rapid-generated deeper expressions, against executable models of the spec's value/default-pair rules (pairwise U/D/M rewriting and a tagged disjunctive normal form), observed through unification with probe atoms, Default() and Validate(Concrete)",
    level_text="exploration: expressions over 22 leaves (atoms, basic types, bounds, small open structs) built with &, | and * on the disjuncts of disjunctions that are not themselves inside a disjunct, nested to depth 3 and width 3; the enumeration covers every (m x | m y) & (m p | m q) and (m x | m y) & r & (m p | m q) over reduced leaf sets with every marking. Checked per case: (1) the set of 23 probe atoms/structs the value accepts equals the union over the product terms; (2) the resolved default is the spec pair's default: a unique concrete value exactly when the model has one (and then the same one), otherwise incomplete; (3) e | e and e | _|_ accept the same set.",
    level_note="trusted: the models in c04_test.go; whether a disjunction-free conjunction of leaves is bottom is taken from the evaluator (a C03-checked behaviour). Where the spec's literal rule U2 and its prose about eliminated marks disagree the evaluator may follow either (counted as class spec-readings-differ).",
    rule="expression tree from the generator/enumeration; non-trivial = contains a default mark and a conjunction both of whose operands contain a disjunction (a cross product with default bookkeeping); distinct = expression text.",
    assumptions=["marks nested inside the disjuncts of marked disjunctions are outside the property (documented deviation) and are not generated",
                 "marked expressions with any nesting of disjunctions (known findings F5, F73, F74), with a bound-versus-atom conflict whose late elimination changes the outcome (F75), or with conflicting defaults in a product of three or more disjunctions (F76) are excluded and counted; unmarked expressions are checked at any nesting"],
)

NOT_APPLICABLE = {}
HOOK_COMMITS = []
