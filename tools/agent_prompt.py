#!/usr/bin/env python3
"""Prints the prompt given to a fresh sub-agent that seeds a property-breaking change."""
import json, sys
pid = sys.argv[1]
n = sys.argv[2] if len(sys.argv) > 2 else "3"
for l in open('/verif/properties.jsonl'):
    p = json.loads(l)
    if p['id'] == pid:
        break
print(f"""You are helping to evaluate a verification effort for the Go implementation of the CUE language (cue-lang/cue). You have your own scratch git worktree of the repository at /tmp/wt-{pid} (work ONLY there; never touch /repo or /verif, and do not read anything under /verif). The sandbox has no network. Use this environment in every shell call: `export GOFLAGS=-mod=mod GOPROXY=off` (leave GOTOOLCHAIN unset; `go` auto-switches to the cached go1.25.0). If `git status` shows go.sum modified by the go tool, restore it before producing a diff.

PROPERTY ({pid}): {p['title']}
{p['statement']}
It is meant to hold: {p['quantifier']['text']}
Code involved (starting points): {', '.join(p['anchors']['files'])}

TASK: produce {n} independent, realistic changes (bugs a developer could plausibly introduce during a refactor, optimisation or feature) to the repository's non-test Go source, each of which BREAKS this property while the code still compiles and the repository's existing tests still pass. Prefer changes that need something specific to manifest - an unusual input, a particular combination of operands, a multi-step sequence, a boundary value, a specific ordering/interleaving, or two cooperating sites that each look fine alone - NOT ones that any ordinary use would expose at once. Make the {n} changes different in character and located in different functions/files where possible. Do not edit tests or testdata.

For EACH change i (1..{n}) create the directory /tmp/wt-{pid}-out/<i>/ containing:
 - patch.diff  : `git diff` of the change against the worktree's HEAD (only that change; reset the worktree between changes with `git checkout -- .`)
 - a demonstration: a self-contained Go test file (demo_test.go, stating in a comment at its top in which package directory of the repository it must be placed and the `go test -run` command to run it) or a small CUE file plus the exact `cue` command line, that FAILS (or shows the wrong behaviour) with the change applied and PASSES (right behaviour) without it. Verify both directions yourself.
 - notes.md : what the change does, why it violates the property, what specific input/sequence/interleaving is needed for it to manifest, and exactly which existing tests you ran to confirm they still pass with the change (run at least `go build ./...`, `go vet` is not needed, and `go test` for the touched package and the packages most likely to notice, e.g. `go test ./internal/core/... ./cue/... ./cmd/cue/cmd/...` for evaluator changes; say how long they took).
If a candidate change makes an existing test fail, discard it and find another. When done, leave the worktree clean (`git checkout -- .`, remove your demo files from it) and reply with a short summary listing each change in one or two sentences.""")
