#!/bin/bash
# usage: try_seed.sh <ID> <patch.diff> [quick|thorough]
# Applies a seeded change to /repo, runs the check, and undoes the change.
set -u
ID=$1; P=$2; TIER=${3:-quick}
cd /repo && git diff --quiet || { echo "/repo not clean"; exit 2; }
git -C /repo apply "$P" || { echo "PATCH DOES NOT APPLY"; exit 2; }
cd /verif && VERIF_EVIDENCE_DIR=/tmp/seed-evidence ./check "$ID" "$TIER" 2>&1 | grep -v '^KNOWN-FINDING' | tail -${LINES_OUT:-8} | cut -c1-600
rc=${PIPESTATUS[0]}
git -C /repo checkout -- . ; git -C /repo clean -fdq
echo "exit=$rc"
