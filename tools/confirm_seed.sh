#!/bin/bash
# usage: confirm_seed.sh <worktree> <seed-dir> <pkg-dir-in-repo> [extra test pkgs...]
# Confirms in a scratch worktree: patch applies and builds; the demonstration fails with
# the change and passes without it; the existing tests of the touched packages still pass.
set -u
export GOFLAGS=-mod=mod GOPROXY=off
WT=$1; SD=$2; PKG=$3; shift 3
cd "$WT" || exit 2
git checkout -q -- . ; git clean -fdq
DEMO=$(ls "$SD"/*_test.go 2>/dev/null | head -1)
echo "== demo without change (must pass)"
cp "$DEMO" "$PKG/zz_seed_demo_test.go"
go test -count=1 -run 'Demo|Seed|Verif' "./$PKG" 2>&1 | tail -3
echo "== apply"
git apply "$SD/patch.diff" || { echo "PATCH DOES NOT APPLY"; exit 1; }
go build ./... 2>&1 | tail -3
echo "== demo with change (must fail)"
go test -count=1 -run 'Demo|Seed|Verif' "./$PKG" 2>&1 | tail -5
rm -f "$PKG/zz_seed_demo_test.go"
echo "== existing tests with change (must pass)"
go test -count=1 "./$PKG" "$@" 2>&1 | tail -6
git checkout -q -- . ; git clean -fdq
