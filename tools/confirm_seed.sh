#!/bin/bash
# usage: confirm_seed.sh <worktree> <seed-dir> [test pkgs for "existing tests"...]
# Confirms in a scratch worktree: patch applies and builds; the demonstration fails with
# the change and passes without it; the existing tests of the given packages still pass.
set -u
export GOFLAGS=-mod=mod GOPROXY=off
WT=$1; SD=$2; shift 2
cd "$WT" || exit 2
git checkout -q -- . ; git clean -fdq
DEMO=$(ls "$SD"/*_test.go 2>/dev/null | head -1)
PKG=$(grep -o 'go test [^ ]*\./[A-Za-z0-9_/.-]*' "$DEMO" | head -1 | grep -o '\./[A-Za-z0-9_/.-]*' | sed 's|^\./||; s|/$||')
RUN=$(grep -o "\-run[ =]'\?[A-Za-z0-9_|^$]*" "$DEMO" | head -1 | sed "s/-run[ =]'\?//")
echo "== demo dir $PKG, -run ${RUN:-Demo}"
echo "== demo without change (must pass)"
cp "$DEMO" "$PKG/zz_seed_demo_test.go"
go test -count=1 -run "${RUN:-Demo}" "./$PKG" 2>&1 | tail -3
echo "== apply"
git apply "$SD/patch.diff" || { echo "PATCH DOES NOT APPLY"; exit 1; }
go build ./... 2>&1 | tail -3
echo "== demo with change (must fail)"
go test -count=1 -run "${RUN:-Demo}" "./$PKG" 2>&1 | grep -v '^    ' | tail -4
rm -f "$PKG/zz_seed_demo_test.go"
if [ $# -gt 0 ]; then
echo "== existing tests with change (must pass)"
go test -count=1 "$@" 2>&1 | grep -v "no test files" | tail -6
fi
git checkout -q -- . ; git clean -fdq
