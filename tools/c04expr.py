#!/usr/bin/env python3
"""Turn a CUE disjunction expression over the C04 leaves into the JSON case of check C04.
usage: c04expr.py '<expr>' [check-name]  -> prints a replay/witness file"""
import json, re, sys
LEAVES = ['1','2','3','2.0','"a"','"b"','true','null','int','number','string','bool','_','>=2','<3','>1','!=2','<=2','{a: 1}','{b: 2}','{a: int}','{a: 1, b: 2}']
def tokenize(s):
    toks=[]; i=0
    while i < len(s):
        c=s[i]
        if c.isspace(): i+=1; continue
        if c in '()|&*': toks.append(c); i+=1; continue
        if c=='{':
            j=s.index('}',i); toks.append(s[i:j+1]); i=j+1; continue
        m=re.match(r'(>=|<=|!=|>|<)?[A-Za-z0-9_."]+', s[i:])
        toks.append(m.group(0)); i+=len(m.group(0))
    return toks
def parse(toks):
    pos=[0]
    def peek(): return toks[pos[0]] if pos[0]<len(toks) else None
    def nxt(): pos[0]+=1; return toks[pos[0]-1]
    def disj():
        args=[]; marks=[]
        while True:
            m=False
            if peek()=='*': nxt(); m=True
            args.append(conj()); marks.append(m)
            if peek()=='|': nxt(); continue
            break
        if len(args)==1 and not marks[0]: return args[0]
        return {"Op":"|","Leaf":"","Args":args,"Marks":marks}
    def conj():
        e=prim()
        while peek()=='&':
            nxt(); e={"Op":"&","Leaf":"","Args":[e,prim()],"Marks":None}
        return e
    def prim():
        t=nxt()
        if t=='(':
            e=disj(); assert nxt()==')'; return e
        assert t in LEAVES, t
        return {"Op":"leaf","Leaf":t,"Args":None,"Marks":None}
    e=disj(); assert peek() is None, toks[pos[0]:]
    return e
if __name__=='__main__':
    e=parse(tokenize(sys.argv[1]))
    print(json.dumps({"property":"C04","check":sys.argv[2] if len(sys.argv)>2 else "disjunction","case":{"Expr":e},"message":sys.argv[1]},indent=1))
