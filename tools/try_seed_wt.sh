#!/bin/bash
# usage: try_seed_wt.sh <ID> <patch.diff> <worktree> [quick|thorough]
# Like try_seed.sh, but applies the seeded change to a scratch worktree of /repo and points the
# driver at it (VERIF_REPO), so that other runs against /repo are not disturbed.
set -u
ID=$1; P=$2; WT=$3; TIER=${4:-quick}
cd "$WT" && git diff --quiet || { echo "$WT not clean"; exit 2; }
git -C "$WT" apply "$P" || { echo "PATCH DOES NOT APPLY"; exit 2; }
cd /verif && VERIF_REPO="$WT" VERIF_EVIDENCE_DIR=/tmp/seed-evidence ./check "$ID" "$TIER" 2>&1 | grep -v '^KNOWN-FINDING' | tail -${LINES_OUT:-8} | cut -c1-600
rc=${PIPESTATUS[0]}
git -C "$WT" checkout -- . ; git -C "$WT" clean -fdq
echo "exit=$rc"
