#!/usr/bin/env python3
"""save_seed.py <ID> <n> <srcdir> <caught-by> <needs> : copies a confirmed seeded change into /verif/seeded/<ID>-<n>/ with meta.json."""
import json, os, shutil, sys
pid, n, src, caught, needs = sys.argv[1:6]
extra = sys.argv[6] if len(sys.argv) > 6 else ""
dst = f"/verif/seeded/{pid}-{n}"
os.makedirs(dst, exist_ok=True)
for f in os.listdir(src):
    shutil.copy(os.path.join(src, f), os.path.join(dst, f))
meta = {
    "property": pid,
    "breaks": open(os.path.join(src, "notes.md")).read().split("\n\n")[0][:600],
    "needs_to_manifest": needs,
    "confirmed": "tools/confirm_seed.sh in a scratch worktree: patch applies and builds, the demonstration fails with the change and passes without it, the touched packages' existing tests pass with the change",
    "check_result": caught,
    "ran": f"tools/try_seed.sh {pid} seeded/{pid}-{n}/patch.diff (git -C /repo apply; ./check {pid} quick; git -C /repo checkout -- .)",
}
if extra:
    meta["note"] = extra
json.dump(meta, open(os.path.join(dst, "meta.json"), "w"), indent=1)
print("saved", dst)
