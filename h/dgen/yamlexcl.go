package dgen

import (
	"strings"
	"unicode"

	"golang.org/x/text/unicode/norm"
)

// YAMLKnownBad names the exclusion (tied to a known finding of C11) that removes
// string s from generation of values that travel through the YAML encoder, or "".
func YAMLKnownBad(s string, isKey bool) string {
	if isKey && !norm.NFC.IsNormalString(s) {
		return "NFCLabelsOnly(F10)"
	}
	if strings.HasPrefix(s, "...") {
		return "NoLeadingDocumentEndMarker(F34a)"
	}
	if i := strings.IndexByte(s, '\n'); i >= 0 && strings.TrimLeft(s[:i], " \t") == "" {
		return "NoBlankFirstLineInMultiline(F11)"
	}
	for _, r := range s {
		if r > 0x7e && !unicode.IsPrint(r) {
			return "NoNonPrintableUnicode(F20)"
		}
	}
	if isKey && strings.ContainsAny(s, "\n\r") {
		return "NoMultilineKey(F48)"
	}
	if isKey && strings.Contains(s, "<<") {
		return "NoMergeKeyLookalike(F47)"
	}
	return ""
}
