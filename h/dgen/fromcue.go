package dgen

import (
	"fmt"

	"cuelang.org/go/cue"
)

// FromCUE walks a concrete cue.Value through the public API (not through any
// encoder) and returns the data tree it denotes.
func FromCUE(v cue.Value) (*Node, error) {
	if err := v.Err(); err != nil {
		return nil, err
	}
	switch v.Kind() {
	case cue.NullKind:
		return &Node{K: "null"}, nil
	case cue.BoolKind:
		b, err := v.Bool()
		return &Node{K: "bool", B: b}, err
	case cue.IntKind:
		return &Node{K: "int", N: fmt.Sprint(v)}, nil
	case cue.FloatKind:
		return &Node{K: "float", N: fmt.Sprint(v)}, nil
	case cue.StringKind:
		s, err := v.String()
		return &Node{K: "string", S: s}, err
	case cue.ListKind:
		n := &Node{K: "list"}
		it, err := v.List()
		if err != nil {
			return nil, err
		}
		for it.Next() {
			e, err := FromCUE(it.Value())
			if err != nil {
				return nil, err
			}
			n.L = append(n.L, e)
		}
		return n, nil
	case cue.StructKind:
		n := &Node{K: "object"}
		it, err := v.Fields()
		if err != nil {
			return nil, err
		}
		for it.Next() {
			e, err := FromCUE(it.Value())
			if err != nil {
				return nil, err
			}
			n.O = append(n.O, &Field{it.Selector().Unquoted(), e})
		}
		return n, nil
	}
	return nil, fmt.Errorf("value of kind %v is not concrete data: %v", v.Kind(), v)
}
