// Package dgen generates ground-truth data trees (null, bool, exact numbers,
// strings, lists, ordered objects) and renders them, independently of the code
// under test, as CUE source and as JSON text with varied spellings.
package dgen

import (
	"bytes"
	"encoding/json"
	"fmt"
	"io"
	"math/big"
	"strconv"
	"strings"
	"unicode/utf8"

	"golang.org/x/text/unicode/norm"
	"pgregory.net/rapid"
)

type Node struct {
	K string   `json:"k"`           // null bool int float string list object
	B bool     `json:"b,omitempty"` // bool value
	N string   `json:"n,omitempty"` // number spelling (valid in both JSON and CUE)
	S string   `json:"s,omitempty"` // string value
	L []*Node  `json:"l,omitempty"`
	O []*Field `json:"o,omitempty"`
}

type Field struct {
	K string `json:"k"`
	V *Node  `json:"v"`
}

// Rat returns the exact value of a number node.
func (n *Node) Rat() *big.Rat {
	r, ok := new(big.Rat).SetString(n.N)
	if !ok {
		panic("bad number spelling " + n.N)
	}
	return r
}

// ---- pools -------------------------------------------------------------------

// YAMLHostile: spellings that YAML 1.1/1.2 resolves to something else, indicator
// characters in every position, blank edges, document markers etc.
var YAMLHostile = []string{"", " ", "  ", "~", "null", "Null", "NULL", "true", "True", "TRUE", "false", "False", "yes", "Yes", "no", "NO", "on", "off", "On", "OFF", "y", "n", "Y", "N",
	"0", "1", "-1", "+1", "1.0", "1e3", "1E3", ".5", "5.", "-.5", "0x1F", "0o17", "017", "0b101", "1_000", ".inf", "-.inf", ".Inf", ".NaN", ".nan", "1:30", "1:30:00", "190:20:30.15",
	"2001-12-14", "2001-12-14t21:59:43.10-05:00", "2001-12-14 21:59:43.10 -5", "2002-1-1",
	"---", "...", "--- a", "- a", "-", "- ", "? a", "?", ": a", ":", "a: b", "a:", "a :b", "a #b", "#a", "# a", "a#b", "&a", "*a", "!a", "!!str a", "|", ">", "|-", ">+", "| a",
	"@a", "`a", "%a", "%YAML 1.2", "{a}", "{", "}", "[a]", "[", "]", ",", "a, b", "'", "''", "'a'", "\"", "\"\"", "\"a\"", "\"\"\"", "'''", "a'b", "a\"b", "\\", "\\n", "a\\", "<<", "=",
	"x\n\t\ny", "x\n \ny", "x\n  \n y", "p\n\nq", "p\n\n\nq", "a\n\tb", "a\n\t", "a \nb", "a\t\nb", "x\n\t\n\ny", "x\ny\n", "x\ny\n\n", "x\n\n", "x\n y\nz", "x\n\ty\nz",
	" a", "a ", "\ta", "a\t", "\n", "\n\n", "a\n", "\na", "a\nb", "a\n\nb", "a\n b", " a\nb", "a\n", "a\r\nb", "\r", "a\rb", "\n \t", "a\n\t", "  a\n b\n",
	"\x00", "\x01", "\x07", "\x1b", "\x7f", "\u0085", "\u00a0", "\u00ad", "\u2028", "\u2029", "\ufeff", "\ufffd", "\ufffe", "\U0001f600", "\U0010ffff", "é", "日本語", "\u202e", "\u200b",
	"null ", " null", "~ ", "true\n", "1 ", "0.", "1e", "1__0", "0x", "_", "__", "<<: a", "a: b: c", "a:\tb", "key: [a", "x\x00y", "\\u0041", "\\x41", "%", "%%", "a%", "!", "!!", "&", "*", "**", "&&", "|+1", ">-2"}

// CUEHostile: things the CUE quoting/label rules care about.
var CUEHostile = []string{"\\(a)", "\\(", "#", "##", "\"#", "#\"", "\"\"\"#", "a.b", "a-b", "a b", "if", "for", "let", "in", "import", "package", "_", "_a", "#a", "_#a", "__a", "0a", "a0", "true", "null", "$a", "a$", "@", "\\", "\\\\", "'", "''", "'''", "/", "//", "/*", "<", ">", "&", "<script>", "\u003c", "[", "[a]", "(a)", "{a}", "a:b", "a,b", "\t", "é", "e\u0301", "\u212b", "\u00c5", "A\u030a"}

var NumPool = []string{"0", "-0", "1", "-1", "10", "1.0", "0.10", "1e3", "1E+3", "1e-3", "1.5e300", "1e400", "-1e-400", "123456789012345678901234567890", "-123456789012345678901234567890",
	"0.1234567890123456789012345678901234567890", "9007199254740993", "9007199254740992", "9223372036854775807", "9223372036854775808", "-9223372036854775808", "-9223372036854775809", "18446744073709551615", "18446744073709551616",
	"1.000", "2E0", "0e0", "0.0", "-0.0", "0.5", "100", "1e2", "1.0e2", "123.456", "1e-7", "0.0000001", "1e21", "1e20", "12345678901234567890.5", "3.14159", "1e34", "1e-34", "9999999999999999999999999999999999", "1e1000", "1e-1000", "4.9e-324", "1.7976931348623157e308"}

type Opts struct {
	Depth    int
	Strings  [][]string // pools to draw string parts from
	NoNull   bool
	TOMLSafe bool
	NFC      bool // keys (and strings) are NFC-normalised by construction
}

func genString(t *rapid.T, o Opts, label string) string {
	n := rapid.IntRange(1, 2).Draw(t, label+"parts")
	if rapid.IntRange(0, 3).Draw(t, label+"single") > 0 {
		n = 1
	}
	var sb strings.Builder
	for i := 0; i < n; i++ {
		switch k := rapid.IntRange(0, 9).Draw(t, label+"kind"); {
		case k < 7 && len(o.Strings) > 0:
			pool := o.Strings[rapid.IntRange(0, len(o.Strings)-1).Draw(t, label+"pool")]
			sb.WriteString(rapid.SampledFrom(pool).Draw(t, label+"part"))
		case k < 9:
			sb.WriteString(rapid.StringMatching(`[a-z]{1,3}`).Draw(t, label+"plain"))
		default:
			r := rapid.Rune().Draw(t, label+"rune")
			if r >= 0xd800 && r <= 0xdfff || r == utf8.RuneError {
				r = 'x'
			}
			sb.WriteRune(r)
		}
	}
	s := sb.String()
	if !utf8.ValidString(s) {
		s = strings.ToValidUTF8(s, "?")
	}
	if o.NFC {
		s = norm.NFC.String(s)
	}
	return s
}

// Gen draws a data tree.
func Gen(t *rapid.T, o Opts) *Node { return gen(t, o, o.Depth) }

func gen(t *rapid.T, o Opts, depth int) *Node {
	k := rapid.IntRange(0, 11).Draw(t, "kind")
	if depth <= 0 && k >= 8 {
		k %= 8
	}
	switch k {
	case 0:
		if o.NoNull {
			return &Node{K: "bool", B: true}
		}
		return &Node{K: "null"}
	case 1:
		return &Node{K: "bool", B: rapid.Bool().Draw(t, "b")}
	case 2, 3:
		n := rapid.SampledFrom(NumPool).Draw(t, "num")
		if o.TOMLSafe {
			n = rapid.SampledFrom([]string{"0", "1", "-1", "10", "1.5", "0.25", "-2.5", "9223372036854775807", "-9223372036854775808", "1e3", "100", "3.14159"}).Draw(t, "tnum")
		}
		if strings.ContainsAny(n, ".eE") {
			return &Node{K: "float", N: n}
		}
		return &Node{K: "int", N: n}
	case 4, 5, 6, 7:
		return &Node{K: "string", S: genString(t, o, "s")}
	case 8, 9:
		n := rapid.IntRange(0, 3).Draw(t, "llen")
		nd := &Node{K: "list"}
		for i := 0; i < n; i++ {
			nd.L = append(nd.L, gen(t, o, depth-1))
		}
		return nd
	default:
		n := rapid.IntRange(0, 4).Draw(t, "olen")
		nd := &Node{K: "object"}
		seen := map[string]bool{}
		for i := 0; i < n; i++ {
			key := genString(t, o, "k")
			if seen[key] {
				continue
			}
			seen[key] = true
			nd.O = append(nd.O, &Field{key, gen(t, o, depth-1)})
		}
		return nd
	}
}

// ---- rendering ---------------------------------------------------------------

// CUEString writes s as a CUE string literal without using cue/literal:
// ASCII letters and digits verbatim, everything else as \uXXXX / \UXXXXXXXX.
func CUEString(s string) string {
	var sb strings.Builder
	sb.WriteByte('"')
	for _, r := range s {
		switch {
		case r >= 'a' && r <= 'z' || r >= 'A' && r <= 'Z' || r >= '0' && r <= '9':
			sb.WriteRune(r)
		case r < 0x10000:
			fmt.Fprintf(&sb, `\u%04x`, r)
		default:
			fmt.Fprintf(&sb, `\U%08x`, r)
		}
	}
	sb.WriteByte('"')
	return sb.String()
}

// CUE renders the tree as a CUE expression.
func (n *Node) CUE() string {
	switch n.K {
	case "null":
		return "null"
	case "bool":
		return fmt.Sprint(n.B)
	case "int", "float":
		return n.N
	case "string":
		return CUEString(n.S)
	case "list":
		var s []string
		for _, e := range n.L {
			s = append(s, e.CUE())
		}
		return "[" + strings.Join(s, ", ") + "]"
	}
	var s []string
	for _, f := range n.O {
		s = append(s, CUEString(f.K)+": "+f.V.CUE())
	}
	return "{" + strings.Join(s, ", ") + "}"
}

// Go converts the tree into plain Go values (map[string]any loses order).
func (n *Node) Go() any {
	switch n.K {
	case "null":
		return nil
	case "bool":
		return n.B
	case "int":
		i, _ := new(big.Int).SetString(n.N, 10)
		return i
	case "float":
		f, _ := strconv.ParseFloat(n.N, 64)
		return f
	case "string":
		return n.S
	case "list":
		l := []any{}
		for _, e := range n.L {
			l = append(l, e.Go())
		}
		return l
	}
	m := map[string]any{}
	for _, f := range n.O {
		m[f.K] = f.V.Go()
	}
	return m
}

var jsonWS = []string{"", "", "", " ", "\n", "\t", "\r", "  \n", "\r\n"}

// JSONStringSpelling spells s as a JSON string with randomly chosen escape forms.
func JSONStringSpelling(t *rapid.T, s string) string {
	var sb strings.Builder
	sb.WriteByte('"')
	for _, r := range s {
		esc := rapid.IntRange(0, 5).Draw(t, "esc")
		switch {
		case r == '"' || r == '\\' || r < 0x20:
			short := map[rune]string{'"': `\"`, '\\': `\\`, '\b': `\b`, '\f': `\f`, '\n': `\n`, '\r': `\r`, '\t': `\t`}
			if sh, ok := short[r]; ok && esc%2 == 0 {
				sb.WriteString(sh)
			} else {
				fmt.Fprintf(&sb, `\u%04x`, r)
			}
		case r == '/' && esc == 0:
			sb.WriteString(`\/`)
		case esc == 1 && r < 0x10000:
			if esc%2 == 1 && r > 0xff {
				fmt.Fprintf(&sb, `\u%04X`, r)
			} else {
				fmt.Fprintf(&sb, `\u%04x`, r)
			}
		case esc == 1:
			r -= 0x10000
			fmt.Fprintf(&sb, `\u%04x\u%04x`, 0xd800+(r>>10), 0xdc00+(r&0x3ff))
		default:
			sb.WriteRune(r)
		}
	}
	sb.WriteByte('"')
	return sb.String()
}

// JSONText renders the tree as a JSON document with random insignificant
// whitespace and escape spellings.
func (n *Node) JSONText(t *rapid.T) string {
	w := func() string { return rapid.SampledFrom(jsonWS).Draw(t, "ws") }
	switch n.K {
	case "null":
		return "null"
	case "bool":
		return fmt.Sprint(n.B)
	case "int", "float":
		return n.N
	case "string":
		return JSONStringSpelling(t, n.S)
	case "list":
		var s []string
		for _, e := range n.L {
			s = append(s, w()+e.JSONText(t)+w())
		}
		return "[" + w() + strings.Join(s, ",") + "]"
	}
	var s []string
	for _, f := range n.O {
		s = append(s, w()+JSONStringSpelling(t, f.K)+w()+":"+w()+f.V.JSONText(t)+w())
	}
	return "{" + w() + strings.Join(s, ",") + "}"
}

// ---- reading JSON with Go's encoding/json, keeping key order ---------------------

// ParseJSON reads one JSON document with encoding/json's token stream.
func ParseJSON(b []byte) (*Node, error) {
	d := json.NewDecoder(bytes.NewReader(b))
	d.UseNumber()
	n, err := parseValue(d)
	if err != nil {
		return nil, err
	}
	if _, err := d.Token(); err != io.EOF {
		return nil, fmt.Errorf("trailing data after JSON value")
	}
	return n, nil
}

func parseValue(d *json.Decoder) (*Node, error) {
	tok, err := d.Token()
	if err != nil {
		return nil, err
	}
	return parseFrom(d, tok)
}

func parseFrom(d *json.Decoder, tok json.Token) (*Node, error) {
	switch v := tok.(type) {
	case nil:
		return &Node{K: "null"}, nil
	case bool:
		return &Node{K: "bool", B: v}, nil
	case json.Number:
		if strings.ContainsAny(string(v), ".eE") {
			return &Node{K: "float", N: string(v)}, nil
		}
		return &Node{K: "int", N: string(v)}, nil
	case string:
		return &Node{K: "string", S: v}, nil
	case json.Delim:
		switch v {
		case '[':
			n := &Node{K: "list"}
			for d.More() {
				e, err := parseValue(d)
				if err != nil {
					return nil, err
				}
				n.L = append(n.L, e)
			}
			if _, err := d.Token(); err != nil {
				return nil, err
			}
			return n, nil
		case '{':
			n := &Node{K: "object"}
			for d.More() {
				kt, err := d.Token()
				if err != nil {
					return nil, err
				}
				ks, ok := kt.(string)
				if !ok {
					return nil, fmt.Errorf("non-string key")
				}
				e, err := parseValue(d)
				if err != nil {
					return nil, err
				}
				n.O = append(n.O, &Field{ks, e})
			}
			if _, err := d.Token(); err != nil {
				return nil, err
			}
			return n, nil
		}
	}
	return nil, fmt.Errorf("unexpected token %v", tok)
}

// Diff compares two trees. Numbers are compared by exact value; kinds
// (int/float) only when kinds is true. Key order matters when ordered is true.
func Diff(want, got *Node, kinds, ordered bool) string { return diff(want, got, kinds, ordered, "$") }

func diff(a, b *Node, kinds, ordered bool, path string) string {
	an, bn := a.K == "int" || a.K == "float", b.K == "int" || b.K == "float"
	if an && bn {
		if a.Rat().Cmp(b.Rat()) != 0 {
			return fmt.Sprintf("%s: number %s vs %s", path, a.N, b.N)
		}
		if kinds && a.K != b.K {
			return fmt.Sprintf("%s: number kind %s (%s) vs %s (%s)", path, a.K, a.N, b.K, b.N)
		}
		return ""
	}
	if a.K != b.K {
		return fmt.Sprintf("%s: kind %s vs %s", path, a.K, b.K)
	}
	switch a.K {
	case "bool":
		if a.B != b.B {
			return fmt.Sprintf("%s: %v vs %v", path, a.B, b.B)
		}
	case "string":
		if a.S != b.S {
			return fmt.Sprintf("%s: string %q vs %q", path, a.S, b.S)
		}
	case "list":
		if len(a.L) != len(b.L) {
			return fmt.Sprintf("%s: list length %d vs %d", path, len(a.L), len(b.L))
		}
		for i := range a.L {
			if d := diff(a.L[i], b.L[i], kinds, ordered, fmt.Sprintf("%s[%d]", path, i)); d != "" {
				return d
			}
		}
	case "object":
		if len(a.O) != len(b.O) {
			return fmt.Sprintf("%s: object with %d vs %d fields", path, len(a.O), len(b.O))
		}
		if ordered {
			for i := range a.O {
				if a.O[i].K != b.O[i].K {
					return fmt.Sprintf("%s: field %d is %q vs %q", path, i, a.O[i].K, b.O[i].K)
				}
				if d := diff(a.O[i].V, b.O[i].V, kinds, ordered, path+"."+fmt.Sprintf("%q", a.O[i].K)); d != "" {
					return d
				}
			}
			return ""
		}
		for _, fa := range a.O {
			found := false
			for _, fb := range b.O {
				if fa.K == fb.K {
					found = true
					if d := diff(fa.V, fb.V, kinds, ordered, path+"."+fmt.Sprintf("%q", fa.K)); d != "" {
						return d
					}
				}
			}
			if !found {
				return fmt.Sprintf("%s: field %q missing", path, fa.K)
			}
		}
	}
	return ""
}

// NumbersOK reports whether every number in the tree has a spelling big.Rat can read
// (absurd exponents cannot) .
func (n *Node) NumbersOK() bool {
	ok := true
	n.Walk(func(x *Node, _ bool) {
		if x.K == "int" || x.K == "float" {
			if strings.ContainsAny(x.N, "eE") {
				i := strings.IndexAny(x.N, "eE")
				if len(x.N)-i > 6 {
					ok = false
					return
				}
			}
			if _, good := new(big.Rat).SetString(x.N); !good {
				ok = false
			}
		}
	})
	return ok
}

// Float64ize replaces every float by the exact decimal value of its nearest
// float64 (what a Go float64 carries), marking floats that overflow.
func (n *Node) Float64ize() (*Node, bool) {
	c := *n
	ok := true
	if n.K == "float" {
		f, err := strconv.ParseFloat(n.N, 64)
		if err != nil || f != f || f > 1.7976931348623157e308 || f < -1.7976931348623157e308 {
			return &c, false
		}
		// the shortest decimal that identifies the float64 is what a Go float64 "means"
		c.N = strconv.FormatFloat(f, 'g', -1, 64)
		if !strings.ContainsAny(c.N, ".e") {
			c.N += ".0"
		}
	}
	c.L = nil
	for _, e := range n.L {
		x, k := e.Float64ize()
		ok = ok && k
		c.L = append(c.L, x)
	}
	c.O = nil
	for _, f := range n.O {
		x, k := f.V.Float64ize()
		ok = ok && k
		c.O = append(c.O, &Field{f.K, x})
	}
	return &c, ok
}

// Walk calls f for every node.
func (n *Node) Walk(f func(*Node, bool)) { n.walk(f, false) }
func (n *Node) walk(f func(*Node, bool), isKey bool) {
	f(n, false)
	for _, e := range n.L {
		e.walk(f, false)
	}
	for _, fl := range n.O {
		f(&Node{K: "string", S: fl.K}, true)
		fl.V.walk(f, false)
	}
}

// MaxDepth returns the nesting depth.
func (n *Node) MaxDepth() int {
	d := 0
	for _, e := range n.L {
		d = max(d, e.MaxDepth())
	}
	for _, f := range n.O {
		d = max(d, f.V.MaxDepth())
	}
	if n.K == "list" || n.K == "object" {
		return d + 1
	}
	return d
}

// Multiline is the sub-pool of strings that are emitted as block scalars.
func Multiline() []string {
	var out []string
	for _, s := range YAMLHostile {
		if strings.Contains(s, "\n") {
			out = append(out, s)
		}
	}
	return out
}
