// Package c03: unifying scalars, types and bounds is exact set intersection.
package c03

import (
	"fmt"
	"math/big"
	"regexp"
	"strings"
	"testing"

	"cuelang.org/go/cue"
	"cuelang.org/go/cue/cuecontext"
	"cuelang.org/go/verifh/evid"
	"pgregory.net/rapid"
)

// ---- reference model -------------------------------------------------------

type atom struct {
	src  string
	kind string // int float string bytes bool null
	num  *big.Rat
	s    string
}

var intRe = regexp.MustCompile(`^-?[0-9]+$`)

func parseAtom(src string) atom {
	switch {
	case src == "null":
		return atom{src: src, kind: "null"}
	case src == "true" || src == "false":
		return atom{src: src, kind: "bool", s: src}
	case strings.HasPrefix(src, `"`):
		return atom{src: src, kind: "string", s: src[1 : len(src)-1]}
	case strings.HasPrefix(src, `'`):
		return atom{src: src, kind: "bytes", s: src[1 : len(src)-1]}
	}
	r, ok := new(big.Rat).SetString(src)
	if !ok {
		panic("bad atom " + src)
	}
	if intRe.MatchString(src) {
		return atom{src: src, kind: "int", num: r}
	}
	return atom{src: src, kind: "float", num: r}
}

func isNum(a atom) bool { return a.kind == "int" || a.kind == "float" }

func ratOf(s string) *big.Rat {
	r, ok := new(big.Rat).SetString(s)
	if !ok {
		panic(s)
	}
	return r
}

func pow2(n int) *big.Rat { return new(big.Rat).SetInt(new(big.Int).Lsh(big.NewInt(1), uint(n))) }

var one = big.NewRat(1, 1)

func intRange(lo, hi *big.Rat) func(atom) bool {
	return func(a atom) bool { return a.kind == "int" && a.num.Cmp(lo) >= 0 && a.num.Cmp(hi) <= 0 }
}
func numRange(lo, hi *big.Rat) func(atom) bool {
	return func(a atom) bool { return isNum(a) && a.num.Cmp(lo) >= 0 && a.num.Cmp(hi) <= 0 }
}
func sub1(r *big.Rat) *big.Rat { return new(big.Rat).Sub(r, one) }
func neg(r *big.Rat) *big.Rat  { return new(big.Rat).Neg(r) }

var types = map[string]func(atom) bool{
	"int":     func(a atom) bool { return a.kind == "int" },
	"float":   func(a atom) bool { return a.kind == "float" },
	"number":  isNum,
	"string":  func(a atom) bool { return a.kind == "string" },
	"bytes":   func(a atom) bool { return a.kind == "bytes" },
	"bool":    func(a atom) bool { return a.kind == "bool" },
	"null":    func(a atom) bool { return a.kind == "null" },
	"_":       func(a atom) bool { return true },
	"uint":    func(a atom) bool { return a.kind == "int" && a.num.Sign() >= 0 },
	"uint8":   intRange(ratOf("0"), sub1(pow2(8))),
	"int8":    intRange(neg(pow2(7)), sub1(pow2(7))),
	"uint16":  intRange(ratOf("0"), sub1(pow2(16))),
	"int16":   intRange(neg(pow2(15)), sub1(pow2(15))),
	"rune":    intRange(ratOf("0"), ratOf("1114111")),
	"uint32":  intRange(ratOf("0"), sub1(pow2(32))),
	"int32":   intRange(neg(pow2(31)), sub1(pow2(31))),
	"uint64":  intRange(ratOf("0"), sub1(pow2(64))),
	"int64":   intRange(neg(pow2(63)), sub1(pow2(63))),
	"uint128": intRange(ratOf("0"), sub1(pow2(128))),
	"int128":  intRange(neg(pow2(127)), sub1(pow2(127))),
	"float32": numRange(ratOf("-3.40282346638528859811704183484516925440e+38"), ratOf("3.40282346638528859811704183484516925440e+38")),
	"float64": numRange(ratOf("-1.797693134862315708145274237317043567981e+308"), ratOf("1.797693134862315708145274237317043567981e+308")),
}

func cmpOK(op string, c int) bool {
	switch op {
	case "<":
		return c < 0
	case "<=":
		return c <= 0
	case ">":
		return c > 0
	case ">=":
		return c >= 0
	case "!=":
		return c != 0
	}
	panic(op)
}

// sat decides whether atom x satisfies constraint source c. Constraint
// spellings: an atom, a type name, "<op> <atom>", `=~"re"`, `!~"re"`.
func sat(c string, x atom) bool {
	if f, ok := types[c]; ok {
		return f(x)
	}
	for _, op := range []string{"<=", ">=", "!=", "<", ">"} {
		if strings.HasPrefix(c, op+" ") {
			b := parseAtom(c[len(op)+1:])
			if b.kind == "null" { // only != null is generated
				return x.kind != "null"
			}
			if b.num != nil {
				return isNum(x) && cmpOK(op, x.num.Cmp(b.num))
			}
			return x.kind == b.kind && cmpOK(op, strings.Compare(x.s, b.s))
		}
	}
	if strings.HasPrefix(c, "=~") || strings.HasPrefix(c, "!~") {
		re := regexp.MustCompile(c[3 : len(c)-1])
		m := x.kind == "string" && re.MatchString(x.s)
		if c[0] == '=' {
			return m
		}
		return x.kind == "string" && !m
	}
	a := parseAtom(c)
	if x.kind != a.kind {
		return false
	}
	if a.num != nil {
		return x.num.Cmp(a.num) == 0
	}
	return x.s == a.s
}

// ---- alphabet --------------------------------------------------------------

var atomSrcs = []string{
	"-1", "0", "1", "2", "3", "0.5", "1.0", "1.5", "2.0", "2.5", "-1.5", "256", "-129",
	`"a"`, `"b"`, `"ab"`, `'a'`, `'b'`, "true", "false", "null",
}

var typeNames = []string{"int", "float", "number", "string", "bytes", "bool", "null", "_",
	"uint", "uint8", "int8", "uint16", "int16", "rune", "uint32", "int32", "uint64", "int64", "uint128", "int128", "float32", "float64"}

func alphabet() (all, numericTypes, numericBounds []string) {
	all = append(all, atomSrcs...)
	all = append(all, typeNames...)
	for _, tn := range typeNames {
		switch tn {
		case "string", "bytes", "bool", "null", "_":
		default:
			numericTypes = append(numericTypes, tn)
		}
	}
	for _, op := range []string{"<", "<=", ">", ">=", "!="} {
		for _, b := range atomSrcs {
			a := parseAtom(b)
			if a.kind == "bool" {
				continue
			}
			if a.kind == "null" {
				if op == "!=" {
					all = append(all, "!= null")
				}
				continue
			}
			all = append(all, op+" "+b)
			if a.num != nil {
				numericBounds = append(numericBounds, op+" "+b)
			}
		}
	}
	for _, re := range []string{"a", "^b", "^$"} {
		all = append(all, `=~"`+re+`"`, `!~"`+re+`"`)
	}
	return
}

// ---- the check -------------------------------------------------------------

type Case struct {
	Conj  []string // constraint spellings, conjoined with &
	Atoms []string // probe atoms
}

var ctx = cuecontext.New()
var ncases int
var atomVals = map[string]cue.Value{}

func atomVal(src string) cue.Value {
	if v, ok := atomVals[src]; ok {
		return v
	}
	v := ctx.CompileString(src)
	atomVals[src] = v
	return v
}

func numEq(v cue.Value, a atom) bool {
	s := fmt.Sprint(v)
	if s == a.src {
		return true
	}
	if a.num == nil {
		return false
	}
	r, ok := new(big.Rat).SetString(s)
	if !ok || r.Cmp(a.num) != 0 {
		return false
	}
	k := v.Kind()
	return (a.kind == "int" && k == cue.IntKind) || (a.kind == "float" && k == cue.FloatKind)
}

func run(c Case) evid.Result {
	ncases++
	if ncases%500 == 0 {
		ctx = cuecontext.New() // keep the context's index small
		atomVals = map[string]cue.Value{}
	}
	expr := strings.Join(c.Conj, " & ")
	var sb strings.Builder
	fmt.Fprintf(&sb, "e: %s\n", expr)
	for i, a := range c.Atoms {
		fmt.Fprintf(&sb, "x%d: (%s) & %s\ny%d: %s & (%s)\n", i, expr, a, i, a, expr)
	}
	v := ctx.CompileString(sb.String())
	e := v.LookupPath(cue.ParsePath("e"))
	res := evid.Result{Key: expr}
	nb, kinds := 0, map[string]bool{}
	for _, cs := range c.Conj {
		if strings.ContainsAny(cs[:1], "<>!=") {
			nb++
		}
	}
	var sats []atom
	for i, as := range c.Atoms {
		a := parseAtom(as)
		kinds[a.kind] = true
		want := true
		for _, cs := range c.Conj {
			if !sat(cs, a) {
				want = false
			}
		}
		if want {
			sats = append(sats, a)
		}
		av := atomVal(as)
		for _, x := range []struct {
			how string
			v   cue.Value
		}{
			{"source e&a", v.LookupPath(cue.ParsePath(fmt.Sprintf("x%d", i)))},
			{"source a&e", v.LookupPath(cue.ParsePath(fmt.Sprintf("y%d", i)))},
			{"api e.Unify(a)", e.Unify(av)},
			{"api a.Unify(e)", av.Unify(e)},
		} {
			got := x.v.Validate() == nil
			if got != want {
				res.Fail = fmt.Sprintf("(%s) & %s [%s]: unifies=%v, model says %v (result %v)", expr, as, x.how, got, want, x.v)
				return res
			}
			if got && !numEq(x.v, a) {
				res.Fail = fmt.Sprintf("(%s) & %s [%s] = %v (kind %v), want the atom itself", expr, as, x.how, x.v, x.v.Kind())
				return res
			}
		}
	}
	if e.Err() != nil && len(sats) > 0 {
		res.Fail = fmt.Sprintf("%s is bottom (%v) but %s satisfies every conjunct", expr, e.Err(), sats[0].src)
		return res
	}
	if e.Err() == nil && e.IsConcrete() {
		if len(sats) == 0 {
			res.Fail = fmt.Sprintf("%s evaluates to concrete %v but no probe atom satisfies it", expr, e)
			return res
		}
		for _, a := range sats {
			if !numEq(e, a) {
				res.Fail = fmt.Sprintf("%s pinned to %v but %s also satisfies every conjunct", expr, e, a.src)
				return res
			}
		}
		res.Classes = append(res.Classes, "pinned")
	}
	if e.Err() != nil {
		res.Classes = append(res.Classes, "bottom")
	} else if len(sats) == 0 {
		res.Classes = append(res.Classes, "empty-undetected")
	} else {
		res.Classes = append(res.Classes, "satisfiable")
	}
	res.Classes = append(res.Classes, fmt.Sprintf("size%d", len(c.Conj)))
	res.NonTrivial = len(c.Conj) >= 2 && nb >= 1
	return res
}

// TestEnum: every conjunction of size 1 and 2 over the alphabet, every
// (numeric type or range, numeric bound, numeric bound) triple; in the thorough
// tier every conjunction of size 3.
func TestEnum(t *testing.T) {
	all, nt, nbnd := alphabet()
	shard, n := evid.Shard()
	ck := evid.Check[Case]{Name: "enum", Run: run}
	evid.Enumerate(t, ck, func(yield func(Case) bool) {
		i := 0
		emit := func(conj ...string) bool {
			i++
			if i%n != shard {
				return true
			}
			return yield(Case{Conj: append([]string{}, conj...), Atoms: atomSrcs})
		}
		for _, a := range all {
			if !emit(a) {
				return
			}
			for _, b := range all {
				if !emit(a, b) {
					return
				}
			}
		}
		for _, ty := range nt {
			for _, b1 := range nbnd {
				for _, b2 := range nbnd {
					// the type is placed first, in the middle and last: the integer
					// re-adjustment of fractional bounds depends on when the kind is known
					if !emit(ty, b1, b2) || !emit(b1, ty, b2) || !emit(b1, b2, ty) {
						return
					}
				}
			}
		}
		if evid.Thorough() {
			for _, a := range all {
				for _, b := range all {
					for _, c := range all {
						if !emit(a, b, c) {
							return
						}
					}
				}
			}
		}
	}, true)
}

// ---- random: size 3-4 over the alphabet, and large / high-precision numbers

func genDigits(t *rapid.T, max int) string {
	n := rapid.IntRange(1, max).Draw(t, "ndig")
	var sb strings.Builder
	sb.WriteByte(byte('1' + rapid.IntRange(0, 8).Draw(t, "d0")))
	for i := 1; i < n; i++ {
		sb.WriteByte(byte('0' + rapid.IntRange(0, 9).Draw(t, "d")))
	}
	return sb.String()
}

// genNum draws a decimal literal: integer or float, up to 60 digits, exponent to +-400.
func genNum(t *rapid.T) string {
	s := genDigits(t, 40)
	neg := rapid.Bool().Draw(t, "neg")
	switch rapid.IntRange(0, 3).Draw(t, "shape") {
	case 0:
	case 1:
		s = s + "." + genDigits(t, 30)
	case 2:
		s = s + fmt.Sprintf("e%d", rapid.IntRange(-400, 400).Draw(t, "exp"))
	case 3:
		s = s + "." + genDigits(t, 10) + fmt.Sprintf("e%d", rapid.IntRange(-60, 60).Draw(t, "exp"))
	}
	if neg {
		s = "-" + s
	}
	return s
}

// neighbours returns spellings of values next to the rational r: r itself as
// int (if integral) and float, r +- 1, r +- a tiny amount.
func neighbours(src string) []string {
	r := ratOf(src)
	var out []string
	// number of decimals needed to write r exactly (its denominator is 2^a*5^b)
	decs := 0
	for x := new(big.Rat).Set(r); !x.IsInt() && decs < 2000; decs++ {
		x.Mul(x, big.NewRat(10, 1))
	}
	add := func(x *big.Rat, d int) {
		if x.IsInt() {
			out = append(out, x.Num().String())
			out = append(out, x.Num().String()+".0")
		} else {
			out = append(out, x.FloatString(d))
		}
	}
	add(r, decs)
	add(new(big.Rat).Add(r, one), decs)
	add(new(big.Rat).Sub(r, one), decs)
	eps := new(big.Rat).SetFrac(big.NewInt(1), new(big.Int).Exp(big.NewInt(10), big.NewInt(int64(decs+3)), nil))
	add(new(big.Rat).Add(r, eps), decs+3)
	add(new(big.Rat).Sub(r, eps), decs+3)
	fl := new(big.Rat).SetInt(new(big.Int).Div(r.Num(), r.Denom())) // Euclidean floor
	add(fl, 0)
	add(new(big.Rat).Add(fl, one), 0)
	return out
}

func genRandom(t *rapid.T) Case {
	all, nt, _ := alphabet()
	if rapid.Bool().Draw(t, "small") {
		n := rapid.IntRange(3, 4).Draw(t, "n")
		c := Case{Atoms: atomSrcs}
		for i := 0; i < n; i++ {
			c.Conj = append(c.Conj, rapid.SampledFrom(all).Draw(t, "c"))
		}
		return c
	}
	// large numbers: 1-3 numeric bounds with random big operands, optionally a numeric type
	n := rapid.IntRange(1, 3).Draw(t, "nb")
	c := Case{}
	seen := map[string]bool{}
	first := ""
	for i := 0; i < n; i++ {
		num := genNum(t)
		if i > 0 && rapid.Bool().Draw(t, "near") {
			// a second bound next to the first, so that the range is narrow
			nb := neighbours(first)
			num = rapid.SampledFrom(nb).Draw(t, "nearnum")
		}
		if i == 0 {
			first = num
		}
		op := rapid.SampledFrom([]string{"<", "<=", ">", ">=", "!="}).Draw(t, "op")
		if rapid.IntRange(0, 5).Draw(t, "asatom") == 0 {
			c.Conj = append(c.Conj, num)
		} else {
			c.Conj = append(c.Conj, op+" "+num)
		}
		for _, a := range neighbours(num) {
			if !seen[a] {
				seen[a] = true
				c.Atoms = append(c.Atoms, a)
			}
		}
	}
	if rapid.Bool().Draw(t, "ty") {
		ty := rapid.SampledFrom(nt).Draw(t, "type")
		pos := rapid.IntRange(0, len(c.Conj)).Draw(t, "typos")
		c.Conj = append(c.Conj[:pos], append([]string{ty}, c.Conj[pos:]...)...)
	}
	c.Atoms = append(c.Atoms, "0", `"a"`, "null")
	return c
}

func TestRandom(t *testing.T) {
	evid.Main(t, evid.Check[Case]{Name: "random", Gen: genRandom, Run: run})
}
