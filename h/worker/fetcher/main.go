// Command fetcher is the isolated worker of check C16. It pushes a generated
// module into an in-process OCI registry and fetches it through
// mod/modcache into the cache directory given on the command line. It is run
// (a) plainly, (b) under strace with SIGKILL injected at the N-th call of one
// system call (a crash point), (c) several at once on one cache directory.
//
//	fetcher <cachedir> <mode> <spec> [goroutines] [fault]
//
// mode: fetch | check (verify what is on disk first, then fetch and verify)
// spec: "<nfiles>:<bigfiles>:<version>" describes the module deterministically.
// fault: "" | errmid | short  (registry failure injected into the zip blob body)
package main

import (
	"bytes"
	"context"
	"errors"
	"fmt"
	"io"
	"io/fs"
	"os"
	"path/filepath"
	"runtime"
	"sort"
	"strconv"
	"strings"
	"sync"
	"sync/atomic"
	"time"

	"cuelabs.dev/go/oci/ociregistry"
	"cuelabs.dev/go/oci/ociregistry/ocimem"

	"cuelang.org/go/mod/modcache"
	"cuelang.org/go/mod/modregistry"
	"cuelang.org/go/mod/module"
	"cuelang.org/go/mod/modzip"
)

type memFile struct {
	path string
	data []byte
}
type memIO struct{}

func (memIO) Path(f memFile) string                { return f.path }
func (memIO) Lstat(f memFile) (os.FileInfo, error) { return fi{f}, nil }
func (memIO) Open(f memFile) (io.ReadCloser, error) {
	return io.NopCloser(bytes.NewReader(f.data)), nil
}

type fi struct{ f memFile }

func (x fi) Name() string       { return filepath.Base(x.f.path) }
func (x fi) Size() int64        { return int64(len(x.f.data)) }
func (x fi) Mode() fs.FileMode  { return 0o644 }
func (x fi) ModTime() time.Time { return time.Time{} }
func (x fi) IsDir() bool        { return false }
func (x fi) Sys() any           { return nil }

// faulty wraps the registry: it counts zip-sized blob reads and can break the body.
type faulty struct {
	ociregistry.Interface
	blobs   atomic.Int32
	fault   string
	zipSize int64
	delay   time.Duration
}

type brokenReader struct {
	ociregistry.BlobReader
	left  int64
	short bool
}

func (b *brokenReader) Read(p []byte) (int, error) {
	if b.left <= 0 {
		if b.short {
			return 0, io.EOF
		}
		return 0, errors.New("injected registry failure in the middle of the body")
	}
	if int64(len(p)) > b.left {
		p = p[:b.left]
	}
	n, err := b.BlobReader.Read(p)
	b.left -= int64(n)
	return n, err
}

// Close behaves like a well-behaved BlobReader: a body that ended early does
// not match its digest, which is reported when the reader is closed.
func (b *brokenReader) Close() error {
	err := b.BlobReader.Close()
	if b.short {
		return errors.New("injected: blob ended early, digest mismatch")
	}
	return err
}

func (f *faulty) GetBlob(ctx context.Context, repo string, digest ociregistry.Digest) (ociregistry.BlobReader, error) {
	time.Sleep(f.delay)
	r, err := f.Interface.GetBlob(ctx, repo, digest)
	if err != nil {
		return r, err
	}
	if r.Descriptor().Size == f.zipSize {
		f.blobs.Add(1)
		if f.fault != "" {
			return &brokenReader{BlobReader: r, left: f.zipSize / 2, short: f.fault == "short"}, nil
		}
	}
	return r, nil
}

func files(spec string) ([]memFile, module.Version) {
	parts := strings.Split(spec, ":")
	n, _ := strconv.Atoi(parts[0])
	big, _ := strconv.Atoi(parts[1])
	ver := parts[2]
	fs := []memFile{{"cue.mod/module.cue", []byte("module: \"example.com/foo@v0\"\nlanguage: version: \"v0.8.0\"\n")}}
	for i := 0; i < n; i++ {
		name := fmt.Sprintf("p%d/f%d.cue", i%3, i)
		if i%4 == 3 {
			name = fmt.Sprintf("p%d/deep/er/f%d.cue", i%3, i)
		}
		data := []byte(fmt.Sprintf("package p%d\nv%d: %q\n", i%3, i, ver))
		if i < big {
			data = append(data, bytes.Repeat([]byte(fmt.Sprintf("x%d: 1234567890\n", i)), 9000+i*500)...) // > 64 KiB
		}
		fs = append(fs, memFile{name, data})
	}
	return fs, module.MustNewVersion("example.com/foo", ver)
}

func main() {
	runtime.LockOSThread()
	dir, mode, spec := os.Args[1], os.Args[2], os.Args[3]
	gor := 1
	if len(os.Args) > 4 {
		gor, _ = strconv.Atoi(os.Args[4])
	}
	fault := ""
	if len(os.Args) > 5 {
		fault = os.Args[5]
	}
	ctx := context.Background()
	fl, mv := files(spec)
	var zb bytes.Buffer
	if err := modzip.Create(&zb, mv, fl, memIO{}); err != nil {
		panic(err)
	}
	mem := ocimem.New()
	setup := modregistry.NewClient(mem)
	if err := setup.PutModule(ctx, mv, bytes.NewReader(zb.Bytes()), int64(zb.Len())); err != nil {
		panic(err)
	}
	delay, _ := strconv.Atoi(os.Getenv("FETCHER_DELAY_US"))
	reg := &faulty{Interface: mem, fault: fault, zipSize: int64(zb.Len()), delay: time.Duration(delay) * time.Microsecond}
	c, err := modcache.New(modregistry.NewClient(reg), dir)
	if err != nil {
		panic(err)
	}
	if mode == "check" {
		// whatever an interrupted run left behind: not-found or complete, never partial
		if loc, err := c.FetchFromCache(mv); err == nil {
			verify(loc, fl, "FetchFromCache (before the clean fetch)")
			fmt.Println("fromcache: complete")
		} else {
			fmt.Println("fromcache:", err)
		}
		checkCacheFiles(dir, zb.Bytes(), "before the clean fetch")
	}
	fmt.Fprintln(os.Stderr, "BEGIN-FETCH")
	var wg sync.WaitGroup
	errs := make([]error, gor)
	locs := make([]module.SourceLoc, gor)
	if gor == 1 {
		locs[0], errs[0] = c.Fetch(ctx, mv)
	} else {
		for i := 0; i < gor; i++ {
			wg.Add(1)
			go func() {
				defer wg.Done()
				locs[i], errs[i] = c.Fetch(ctx, mv)
			}()
		}
		wg.Wait()
	}
	fmt.Fprintln(os.Stderr, "END-FETCH")
	for i, err := range errs {
		if err != nil {
			if fault != "" {
				// a registry fault must surface as an error and leave an absent-or-complete state
				if loc, ferr := c.FetchFromCache(mv); ferr == nil {
					verify(loc, fl, "FetchFromCache after a failed fetch")
				}
				checkCacheFiles(dir, zb.Bytes(), "after a failed fetch")
				fmt.Println("fetch error (expected with a registry fault):", err)
				os.Exit(0)
			}
			fmt.Printf("VIOLATION clean Fetch failed (goroutine %d): %v\n", i, err)
			os.Exit(1)
		}
		verify(locs[i], fl, "Fetch")
	}
	if fault != "" {
		fmt.Println("VIOLATION Fetch succeeded although the registry broke the zip body")
		os.Exit(1)
	}
	checkCacheFiles(dir, zb.Bytes(), "after the clean fetch")
	if n := reg.blobs.Load(); n > 1 {
		fmt.Printf("VIOLATION the zip was downloaded %d times by one process\n", n)
		os.Exit(1)
	}
	fmt.Println("ok blobs", reg.blobs.Load())
}

// checkCacheFiles: a cached zip is absent or byte-identical to the registry's.
func checkCacheFiles(dir string, zip []byte, when string) {
	ver := strings.Split(os.Args[3], ":")[2]
	filepath.WalkDir(filepath.Join(dir, "mod", "download"), func(p string, d fs.DirEntry, err error) error {
		if err != nil || d.IsDir() {
			return nil
		}
		if strings.HasSuffix(p, "/"+ver+".zip") {
			b, _ := os.ReadFile(p)
			if !bytes.Equal(b, zip) {
				fmt.Printf("VIOLATION cached zip %s is present but differs from the registry's (%d vs %d bytes) %s\n", p, len(b), len(zip), when)
				os.Exit(1)
			}
		}
		if strings.HasSuffix(p, "/"+ver+".mod") {
			b, _ := os.ReadFile(p)
			if !bytes.HasPrefix(b, []byte("module: \"example.com/foo@v0\"")) || !bytes.HasSuffix(b, []byte("\"v0.8.0\"\n")) {
				fmt.Printf("VIOLATION cached module file %s is present but incomplete (%q) %s\n", p, b, when)
				os.Exit(1)
			}
		}
		return nil
	})
}

func verify(loc module.SourceLoc, fl []memFile, what string) {
	want := map[string]string{}
	for _, f := range fl {
		want[f.path] = string(f.data)
	}
	got := map[string]string{}
	fs.WalkDir(loc.FS, loc.Dir, func(p string, d fs.DirEntry, err error) error {
		if err != nil {
			fmt.Println("walk err", err)
			return nil
		}
		if !d.IsDir() {
			b, _ := fs.ReadFile(loc.FS, p)
			rel, _ := filepath.Rel(loc.Dir, p)
			got[filepath.ToSlash(rel)] = string(b)
		}
		return nil
	})
	var bad []string
	for k, v := range want {
		if g, ok := got[k]; !ok {
			bad = append(bad, "missing "+k)
		} else if g != v {
			bad = append(bad, "wrong content "+k)
		}
	}
	for k := range got {
		if _, ok := want[k]; !ok {
			bad = append(bad, "extra "+k)
		}
	}
	sort.Strings(bad)
	if len(bad) > 0 {
		fmt.Printf("VIOLATION %s returned an incomplete directory: %v\n", what, bad)
		os.Exit(1)
	}
}
