// Package c17: cue mod tidy reaches a correct fixpoint; module files round-trip.
package c17

import (
	"context"
	"encoding/json"
	"os"
	"fmt"
	"reflect"
	"sort"
	"strings"
	"testing"
	"testing/fstest"
	"time"

	"cuelang.org/go/internal/mod/modload"
	"cuelang.org/go/internal/mod/modrequirements"
	"cuelang.org/go/internal/mod/semver"
	"cuelang.org/go/mod/modfile"
	"cuelang.org/go/mod/modregistry"
	"cuelang.org/go/mod/module"
	"cuelang.org/go/verifh/evid"
	"pgregory.net/rapid"
)

// ---- universe -----------------------------------------------------------------------------

type Pkg struct {
	Name    string   // directory / package name
	Imports []string // import paths
}

type ModVer struct {
	Path    string // e.g. ex.com/m1@v0
	Version string
	Pkgs    []Pkg
	Deps    map[string]string // module path -> version (its module.cue)
	Default map[string]bool   // module path -> marked default: true
}

type Case struct {
	Mods     []ModVer
	MainPkgs []Pkg             // packages of the main module
	MainDeps map[string]string // existing deps of the main module
	Perm     int               // permutation seed for the second run
	Delay    int
	BadImp   bool // main imports a package that does not exist
	Adjusted int  // number of existing deps raised by the generator (exclusion F52)
}

const mainPath = "main.org@v0"

var excl = os.Getenv("VERIF_MODE") != "replay"

var versions = []string{"v0.1.0", "v0.2.0", "v0.2.1-pre", "v0.3.0"}

func modPath(i int) string { return fmt.Sprintf("ex.com/m%d@v0", i) }

func importPath(mod, pkg string, withMajor bool) string {
	base, _, _ := strings.Cut(mod, "@")
	if withMajor {
		return base + "/" + pkg + "@v0"
	}
	return base + "/" + pkg
}

type registry struct {
	c     Case
	perm  int
	delay int
}

func (r *registry) find(m module.Version) *ModVer {
	for i := range r.c.Mods {
		if r.c.Mods[i].Path == m.Path() && r.c.Mods[i].Version == m.Version() {
			return &r.c.Mods[i]
		}
	}
	return nil
}

func pkgFile(p Pkg, perm int) string {
	var sb strings.Builder
	fmt.Fprintf(&sb, "package %s\n", p.Name)
	imps := append([]string{}, p.Imports...)
	if perm%2 == 1 {
		for a, b := 0, len(imps)-1; a < b; a, b = a+1, b-1 {
			imps[a], imps[b] = imps[b], imps[a]
		}
	}
	if len(imps) > 0 {
		sb.WriteString("import (\n")
		for i, im := range imps {
			fmt.Fprintf(&sb, "\ti%d %q\n", i, im+":"+lastElem(im))
		}
		sb.WriteString(")\n")
		for i := range imps {
			fmt.Fprintf(&sb, "x%d: i%d.v\n", i, i)
		}
	}
	sb.WriteString("v: 1\n")
	return sb.String()
}

func lastElem(imp string) string {
	imp, _, _ = strings.Cut(imp, "@")
	return imp[strings.LastIndex(imp, "/")+1:]
}

func modFileText(path string, deps map[string]string, perm int) string {
	return modFileTextD(path, deps, nil, perm)
}

func modFileTextD(path string, deps map[string]string, def map[string]bool, perm int) string {
	var sb strings.Builder
	fmt.Fprintf(&sb, "module: %q\nlanguage: version: \"v0.9.0\"\n", path)
	var ks []string
	for k := range deps {
		ks = append(ks, k)
	}
	sort.Strings(ks)
	if perm%2 == 1 {
		for a, b := 0, len(ks)-1; a < b; a, b = a+1, b-1 {
			ks[a], ks[b] = ks[b], ks[a]
		}
	}
	for _, k := range ks {
		if def[k] {
			fmt.Fprintf(&sb, "deps: %q: {v: %q, default: true}\n", k, deps[k])
		} else {
			fmt.Fprintf(&sb, "deps: %q: v: %q\n", k, deps[k])
		}
	}
	return sb.String()
}

func (r *registry) fs(m *ModVer) fstest.MapFS {
	f := fstest.MapFS{"cue.mod/module.cue": {Data: []byte(modFileTextD(m.Path, m.Deps, m.Default, r.perm))}}
	for _, p := range m.Pkgs {
		f[p.Name+"/x.cue"] = &fstest.MapFile{Data: []byte(pkgFile(p, r.perm))}
	}
	return f
}

func (r *registry) wait(key string) {
	d := (len(key)*13 + r.delay*7 + int(key[len(key)-1])) % 4
	time.Sleep(time.Duration(d) * 100 * time.Microsecond)
}

func (r *registry) Fetch(ctx context.Context, m module.Version) (module.SourceLoc, error) {
	r.wait(m.String())
	mv := r.find(m)
	if mv == nil {
		return module.SourceLoc{}, fmt.Errorf("module %v: %w", m, modregistry.ErrNotFound)
	}
	return module.SourceLoc{FS: r.fs(mv), Dir: "."}, nil
}

func (r *registry) ModFile(ctx context.Context, m module.Version) (*modfile.File, error) {
	r.wait(m.String())
	mv := r.find(m)
	if mv == nil {
		return nil, fmt.Errorf("module %v: %w", m, modregistry.ErrNotFound)
	}
	return modfile.Parse([]byte(modFileTextD(mv.Path, mv.Deps, mv.Default, r.perm)), "cue.mod/module.cue")
}

func (r *registry) ModuleVersions(ctx context.Context, mpath string) ([]string, error) {
	r.wait(mpath)
	var vs []string
	for _, m := range r.c.Mods {
		base, _, _ := strings.Cut(m.Path, "@")
		if m.Path == mpath || (!strings.Contains(mpath, "@") && base == mpath) {
			vs = append(vs, m.Version)
		}
	}
	sort.Slice(vs, func(i, j int) bool { return semver.Compare(vs[i], vs[j]) < 0 })
	return vs, nil
}

func mainFS(c Case, perm int) fstest.MapFS {
	f := fstest.MapFS{"cue.mod/module.cue": {Data: []byte(modFileText(mainPath, c.MainDeps, perm))}}
	for i, p := range c.MainPkgs {
		name := fmt.Sprintf("%s/f%d.cue", p.Name, i)
		if perm%2 == 1 {
			name = fmt.Sprintf("%s/z%d.cue", p.Name, len(c.MainPkgs)-i)
		}
		f[name] = &fstest.MapFile{Data: []byte(pkgFile(p, perm))}
	}
	return f
}

func tidyOnce(c Case, fsys fstest.MapFS, perm int) (string, *modfile.File, error) {
	reg := &registry{c: c, perm: perm, delay: c.Delay + perm}
	res, err := modload.Tidy(context.Background(), fsys, ".", reg, nil)
	if err != nil {
		return "", nil, err
	}
	b, err := modfile.Format(res.Module)
	if err != nil {
		return "", nil, err
	}
	return string(b), res.Module, nil
}

func latest(c Case, path string) string {
	best := ""
	for _, m := range c.Mods {
		if m.Path == path && semver.Prerelease(m.Version) == "" && (best == "" || semver.Compare(m.Version, best) > 0) {
			best = m.Version
		}
	}
	if best == "" { // only pre-releases
		for _, m := range c.Mods {
			if m.Path == path && (best == "" || semver.Compare(m.Version, best) > 0) {
				best = m.Version
			}
		}
	}
	return best
}

func findMod(c Case, path, ver string) *ModVer {
	for i := range c.Mods {
		if c.Mods[i].Path == path && c.Mods[i].Version == ver {
			return &c.Mods[i]
		}
	}
	return nil
}

// resolve maps an import path to (module path, package dir). An import without a major version is
// resolved in the context of the importing module: its only listed major of that module, or the
// one its module file marks as default; from (the single-major bases of) the main module: the only major.
func resolve(c Case, imp string, from *ModVer) (string, string, bool) {
	path, major, hasMajor := strings.Cut(imp, "@")
	for _, m := range c.Mods {
		base, mmajor, _ := strings.Cut(m.Path, "@")
		if !strings.HasPrefix(path, base+"/") {
			continue
		}
		dir := strings.TrimPrefix(path, base+"/")
		if hasMajor {
			if mmajor == major {
				return m.Path, dir, true
			}
			continue
		}
		if from != nil {
			var listed []string
			for dp := range from.Deps {
				if b, _, _ := strings.Cut(dp, "@"); b == base {
					listed = append(listed, dp)
				}
			}
			if len(listed) == 1 {
				return listed[0], dir, true
			}
			for _, dp := range listed {
				if from.Default[dp] {
					return dp, dir, true
				}
			}
		}
		return m.Path, dir, true // main module: bases imported without major have a single major
	}
	return "", "", false
}

func run(c Case) (res evid.Result) {
	defer func() {
		if r := recover(); r != nil {
			res.Fail = fmt.Sprintf("panic: %v", r)
		}
	}()
	describe := func() string {
		var sb strings.Builder
		fmt.Fprintf(&sb, "main deps %v\n", c.MainDeps)
		for _, p := range c.MainPkgs {
			fmt.Fprintf(&sb, "main pkg %s imports %v\n", p.Name, p.Imports)
		}
		for _, m := range c.Mods {
			fmt.Fprintf(&sb, "%s@%s deps %v pkgs %v\n", m.Path, m.Version, m.Deps, m.Pkgs)
		}
		return sb.String()
	}
	fsys := mainFS(c, 0)
	text, mf, err := tidyOnce(c, fsys, 0)
	if c.BadImp {
		res.Classes = append(res.Classes, "missing-package")
		if err == nil {
			res.Fail = "Tidy succeeded although the main module imports a package that no module provides\n" + describe()
		}
		res.NonTrivial = true
		return
	}
	if err != nil {
		res.Fail = fmt.Sprintf("Tidy failed although every import can be resolved: %v\n%s", err, describe())
		return
	}
	T := map[string]string{}
	for p, d := range mf.Deps {
		T[p] = d.Version
	}
	// (a)+(b): the needed set computed on T's own versions
	needed := map[string]bool{}
	var visit func(imps []string, from string, fromMod *ModVer) string
	seenPkg := map[string]bool{}
	visit = func(imps []string, from string, fromMod *ModVer) string {
		for _, im := range imps {
			mp, dir, ok := resolve(c, im, fromMod)
			if !ok {
				return fmt.Sprintf("import %q of %s resolves to no module", im, from)
			}
			ver, ok := T[mp]
			if !ok {
				return fmt.Sprintf("import %q of %s needs module %s which the tidied module file does not list (deps %v)", im, from, mp, T)
			}
			needed[mp] = true
			mv := findMod(c, mp, ver)
			if mv == nil {
				return fmt.Sprintf("tidied module file lists %s at version %s which does not exist", mp, ver)
			}
			if seenPkg[mp+"/"+dir] {
				continue
			}
			seenPkg[mp+"/"+dir] = true
			for _, p := range mv.Pkgs {
				if p.Name == dir {
					if bad := visit(p.Imports, mp+"@"+ver+"/"+dir, mv); bad != "" {
						return bad
					}
				}
			}
		}
		return ""
	}
	for _, p := range c.MainPkgs {
		if bad := visit(p.Imports, "main/"+p.Name, nil); bad != "" {
			res.Fail = bad + "\ntidied:\n" + text + describe()
			return
		}
	}
	for mp := range T {
		if !needed[mp] {
			res.Fail = fmt.Sprintf("tidied module file lists %s which provides no package in the import closure\ntidied:\n%s%s", mp, text, describe())
			return
		}
	}
	// (c) MVS consistency
	f52 := false
	for mp, ver := range T {
		mv := findMod(c, mp, ver)
		for dp, dv := range mv.Deps {
			if tv, ok := T[dp]; ok && semver.Compare(tv, dv) < 0 {
				if excl {
					// known finding F52: tidy does not raise listed requirements to the versions
					// the module graph selects; counted, not gated (the witness replays with the
					// predicate on)
					f52 = true
					continue
				}
				res.Fail = fmt.Sprintf("%s@%s requires %s@%s but the tidied module file selects %s\ntidied:\n%s%s", mp, ver, dp, dv, tv, text, describe())
				return
			}
		}
		allowed := map[string]bool{latest(c, mp): true}
		if v, ok := c.MainDeps[mp]; ok {
			allowed[v] = true
			if semver.Compare(ver, v) < 0 {
				res.Fail = fmt.Sprintf("tidy downgraded %s from %s to %s\n%s", mp, v, ver, describe())
				return
			}
		}
		for op, ov := range T {
			if d, ok := findMod(c, op, ov).Deps[mp]; ok {
				allowed[d] = true
			}
		}
		// tidy admits several correct histories: a version may have been pulled in by a module
		// version that was selected at some point of the iteration and later superseded. What is
		// never legitimate is a version nobody asked for.
		for _, m := range c.Mods {
			if d, ok := m.Deps[mp]; ok {
				allowed[d] = true
			}
		}
		if !allowed[ver] {
			res.Fail = fmt.Sprintf("tidied module file selects %s@%s, which is neither the existing requirement, nor required by any module version of the universe, nor the latest version (allowed %v)\ntidied:\n%s%s", mp, ver, allowed, text, describe())
			return
		}
	}
	// (d) fixpoint
	fs2 := mainFS(c, 0)
	fs2["cue.mod/module.cue"] = &fstest.MapFile{Data: []byte(text)}
	if err := modload.CheckTidy(context.Background(), fs2, ".", &registry{c: c, delay: c.Delay}, nil); err != nil {
		res.Fail = fmt.Sprintf("CheckTidy rejects Tidy's own output: %v\ntidied:\n%s%s", err, text, describe())
		return
	}
	text2, _, err := tidyOnce(c, fs2, 0)
	if err != nil || text2 != text {
		res.Fail = fmt.Sprintf("Tidy is not idempotent (err %v)\nfirst:\n%s\nsecond:\n%s%s", err, text, text2, describe())
		return
	}
	// (e) order independence: imports, file names, deps order and registry delays permuted
	text3, _, err := tidyOnce(c, mainFS(c, 1+2*(c.Perm%5)), 1+2*(c.Perm%5))
	if err != nil || text3 != text {
		res.Fail = fmt.Sprintf("Tidy depends on file/import/deps order or registry timing (err %v)\nfirst:\n%s\npermuted:\n%s%s", err, text, text3, describe())
		return
	}
	// an untidy input must be reported by CheckTidy
	if !reflect.DeepEqual(c.MainDeps, T) && !(len(c.MainDeps) == 0 && len(T) == 0) {
		if err := modload.CheckTidy(context.Background(), fsys, ".", &registry{c: c, delay: c.Delay}, nil); err == nil {
			res.Fail = fmt.Sprintf("CheckTidy accepts an input (deps %v) that Tidy changes to %v\n%s", c.MainDeps, T, describe())
			return
		}
		res.Classes = append(res.Classes, "changed-by-tidy")
	} else {
		res.Classes = append(res.Classes, "already-tidy")
	}
	if f52 {
		res.Excluded = "ListedVersionBelowRequirementNotGated(F52)"
	}
	upgraded := false
	for mp, v := range c.MainDeps {
		if tv, ok := T[mp]; ok && tv != v {
			upgraded = true
		}
	}
	res.NonTrivial = upgraded || len(T) >= 3
	return
}

func gen(t *rapid.T) Case {
	nm := rapid.IntRange(1, 6).Draw(t, "nmods")
	c := Case{MainDeps: map[string]string{}, Perm: rapid.IntRange(0, 100).Draw(t, "perm"), Delay: rapid.IntRange(0, 50).Draw(t, "delay")}
	type major struct {
		path string
		vers []string
		pkgs []string
	}
	// module i has major v0 and, sometimes, also major v1
	mods := make([][]major, nm)
	for i := range mods {
		n := rapid.IntRange(1, 3).Draw(t, "nvers")
		off := rapid.IntRange(0, len(versions)-n).Draw(t, "voff")
		mods[i] = append(mods[i], major{modPath(i), versions[off : off+n], []string{"p0", "p1"}[:rapid.IntRange(1, 2).Draw(t, "npkgs")]})
		if rapid.IntRange(0, 3).Draw(t, "twomajors") == 0 {
			mods[i] = append(mods[i], major{fmt.Sprintf("ex.com/m%d@v1", i), []string{"v1.0.0", "v1.1.0"}[:rapid.IntRange(1, 2).Draw(t, "nv1")], []string{"p0", "p1"}[:rapid.IntRange(1, 2).Draw(t, "npkgs1")]})
		}
	}
	// modules import only modules with a higher index (acyclic)
	for i := range mods {
		for _, mj := range mods[i] {
			for _, v := range mj.vers {
				m := ModVer{Path: mj.path, Version: v, Deps: map[string]string{}, Default: map[string]bool{}}
				for _, pn := range mj.pkgs {
					p := Pkg{Name: pn}
					for j := i + 1; j < nm; j++ {
						if rapid.IntRange(0, 2).Draw(t, "imp") != 0 {
							continue
						}
						tj := mods[j][rapid.IntRange(0, len(mods[j])-1).Draw(t, "imajor")]
						if _, ok := m.Deps[tj.path]; !ok {
							m.Deps[tj.path] = rapid.SampledFrom(tj.vers).Draw(t, "dver")
						}
						// an import without major version needs an unambiguous or default major in this module file
						withMajor := rapid.IntRange(0, 3).Draw(t, "major") > 0
						if excl && len(mods[j]) > 1 {
							// known finding F63: an import without major version inside a dependency is resolved
							// with the main module's defaults when the dependency's own requirements are pruned
							// out of the module graph; such imports are only generated for single-major bases
							withMajor = true
						}
						if !withMajor {
							other := false
							for dp := range m.Deps {
								if b, _, _ := strings.Cut(dp, "@"); b == strings.Split(tj.path, "@")[0] && dp != tj.path {
									other = true
								}
							}
							if other || len(mods[j]) > 1 {
								// make it explicit: list it as the default major (and make sure no other is)
								for dp := range m.Default {
									if b, _, _ := strings.Cut(dp, "@"); b == strings.Split(tj.path, "@")[0] {
										withMajor = true // another major already is the default: keep this import versioned
									}
								}
								if !withMajor {
									m.Default[tj.path] = true
								}
							}
						}
						p.Imports = append(p.Imports, importPath2(tj.path, rapid.SampledFrom(tj.pkgs).Draw(t, "ipkg"), withMajor))
					}
					m.Pkgs = append(m.Pkgs, p)
				}
				c.Mods = append(c.Mods, m)
			}
		}
	}
	np := rapid.IntRange(1, 2).Draw(t, "nmain")
	for k := 0; k < np; k++ {
		p := Pkg{Name: fmt.Sprintf("q%d", k)}
		for j := 0; j < nm; j++ {
			for _, tj := range mods[j] {
				if rapid.IntRange(0, 1).Draw(t, "mimp") == 0 {
					// the main module imports without major version only when the base has a single major
					withMajor := len(mods[j]) > 1 || rapid.IntRange(0, 4).Draw(t, "mmajor") > 0
					p.Imports = append(p.Imports, importPath2(tj.path, rapid.SampledFrom(tj.pkgs).Draw(t, "mpkg"), withMajor))
				}
			}
		}
		c.MainPkgs = append(c.MainPkgs, p)
	}
	// existing deps: some right, some stale, some missing
	for j := 0; j < nm; j++ {
		for _, tj := range mods[j] {
			if rapid.IntRange(0, 2).Draw(t, "hasdep") == 0 {
				c.MainDeps[tj.path] = rapid.SampledFrom(tj.vers).Draw(t, "mdver")
			}
		}
	}
	if rapid.IntRange(0, 15).Draw(t, "bad") == 0 {
		c.BadImp = true
		c.MainPkgs[0].Imports = append(c.MainPkgs[0].Imports, rapid.SampledFrom([]string{"ex.com/m0/nosuchpkg@v0", "nosuch.org/x@v0"}).Draw(t, "badimp"))
	}
	return c
}

func importPath2(mod, pkg string, withMajor bool) string {
	base, major, _ := strings.Cut(mod, "@")
	if withMajor {
		return base + "/" + pkg + "@" + major
	}
	return base + "/" + pkg
}

func TestTidy(t *testing.T) {
	evid.Main(t, evid.Check[Case]{Name: "tidy", Gen: gen, Run: run})
}

// ---- module file round trip ------------------------------------------------------------------

type MFCase struct {
	Module  string
	Lang    string
	Source  string
	Deps    map[string][2]string // path -> version, default ("true"/"")
	Custom  bool
	Unknown string // text of one extra/malformed field appended ("" = none)
}

func runMF(c MFCase) (res evid.Result) {
	defer func() {
		if r := recover(); r != nil {
			res.Fail = fmt.Sprintf("panic: %v", r)
		}
	}()
	var sb strings.Builder
	fmt.Fprintf(&sb, "module: %q\nlanguage: version: %q\n", c.Module, c.Lang)
	if c.Source != "" {
		fmt.Fprintf(&sb, "source: kind: %q\n", c.Source)
	}
	var ks []string
	for k := range c.Deps {
		ks = append(ks, k)
	}
	sort.Strings(ks)
	for _, k := range ks {
		fmt.Fprintf(&sb, "deps: %q: {v: %q", k, c.Deps[k][0])
		if c.Deps[k][1] != "" {
			sb.WriteString(", default: true")
		}
		sb.WriteString("}\n")
	}
	if c.Custom {
		sb.WriteString("custom: \"ex.com\": {a: 1, b: [\"x\"]}\n")
	}
	base := sb.String()
	f, err := modfile.Parse([]byte(base), "module.cue")
	if err != nil {
		res.Skip = true // the generator produced something the strict parser refuses: not in the domain
		res.Classes = []string{"rejected-base"}
		return
	}
	out, err := modfile.Format(f)
	if err != nil {
		res.Fail = fmt.Sprintf("Format of a parsed module file fails: %v\n%s", err, base)
		return
	}
	g, err := modfile.Parse(out, "module.cue")
	if err != nil {
		res.Fail = fmt.Sprintf("Parse(Format(f)) fails: %v\nformatted:\n%s", err, out)
		return
	}
	if f.Module != g.Module || !reflect.DeepEqual(f.Language, g.Language) || !reflect.DeepEqual(f.Source, g.Source) || !reflect.DeepEqual(f.Deps, g.Deps) || !reflect.DeepEqual(f.Custom, g.Custom) {
		res.Fail = fmt.Sprintf("Parse(Format(f)) != f\nsource:\n%s\nformatted:\n%s", base, out)
		return
	}
	res.Classes = []string{"roundtrip"}
	if c.Unknown != "" {
		res.Classes = append(res.Classes, "unknown-field")
		if _, err := modfile.Parse([]byte(base+c.Unknown+"\n"), "module.cue"); err == nil {
			res.Fail = fmt.Sprintf("Parse accepts a module file with the unknown/malformed field %q (silently dropped)\n%s", c.Unknown, base+c.Unknown)
			return
		}
	}
	res.NonTrivial = len(c.Deps) > 0 || c.Unknown != ""
	return
}

func genMF(t *rapid.T) MFCase {
	c := MFCase{
		Module: rapid.SampledFrom([]string{"ex.com/m@v0", "ex.com/m@v1", "ex.com/a/b@v2", "foo.org/x-y@v0", "ex.com/m"}).Draw(t, "module"),
		Lang:   rapid.SampledFrom([]string{"v0.9.0", "v0.10.0", "v0.12.0", "v0.18.0", "v0.9.2"}).Draw(t, "lang"),
		Source: rapid.SampledFrom([]string{"", "", "git", "self"}).Draw(t, "source"),
		Deps:   map[string][2]string{},
		Custom: rapid.IntRange(0, 3).Draw(t, "custom") == 0,
	}
	n := rapid.IntRange(0, 4).Draw(t, "ndeps")
	for i := 0; i < n; i++ {
		p := rapid.SampledFrom([]string{"a.org/x@v0", "a.org/x@v1", "b.org/y@v0", "c.org/z/w@v2", "d.org/q@v0"}).Draw(t, "dpath")
		major := p[strings.LastIndex(p, "@")+1:]
		v := major + rapid.SampledFrom([]string{".0.0", ".1.0", ".2.3", ".0.0-alpha.1", ".1.0-rc"}).Draw(t, "dver")
		def := ""
		if rapid.IntRange(0, 3).Draw(t, "default") == 0 {
			def = "true"
		}
		c.Deps[p] = [2]string{v, def}
	}
	if rapid.Bool().Draw(t, "unknown") {
		c.Unknown = rapid.SampledFrom([]string{"unknownField: 1", "modul: \"x\"", "deps: \"e.org/x@v0\": {v: \"v0.1.0\", extra: true}", "deps: \"e.org/x@v0\": {version: \"v0.1.0\"}", "language: versions: \"v0.9.0\"", "source: kind: \"svn\"", "source: {kind: \"git\", url: \"x\"}", "deps: \"e.org/x@v0\": v: 1", "language: version: 9", "deps: \"e.org/x\": v: \"v0.1.0\"", "deps: \"e.org/x@v1\": v: \"v0.1.0\"", "Module: \"y\"", "custom: 5", "deps: []"}).Draw(t, "ufield")
	}
	return c
}

func TestModFile(t *testing.T) {
	evid.Main(t, evid.Check[MFCase]{Name: "modfile", Gen: genMF, Run: runMF})
}

func TestDebugGraph(t *testing.T) {
	p := os.Getenv("VERIF_DEBUG_CASE")
	if p == "" {
		t.Skip()
	}
	b, _ := os.ReadFile(p)
	var rf struct{ Case Case }
	json.Unmarshal(b, &rf)
	c := rf.Case
	reg := &registry{c: c}
	var roots []module.Version
	for p, v := range c.MainDeps {
		roots = append(roots, module.MustNewVersion(p, v))
	}
	module.Sort(roots)
	rs := modrequirements.NewRequirements(mainPath, reg, roots, nil)
	mg, err := rs.Graph(context.Background())
	fmt.Println("graph err", err)
	for _, m := range mg.BuildList() {
		fmt.Println(" selected", m)
		r, ok := mg.RequiredBy(m)
		fmt.Println("   requires", r, ok)
	}
}
