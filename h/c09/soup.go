package c09

import (
	"strings"

	"pgregory.net/rapid"
)

var soupLines = []string{"", "x", " x", "\tx", "\t", "  ", "\xffx", "\t\xff", "\xc3", "\xed\xa0\x80", "\x00", "\r", "x\r", `\(a)`, `\(`, `\n`, `\`, `é`, `\ud800`, `\U0001F600`,
	`\#(a)`, `"`, `""`, `'`, `''`, `#`, `"#`, " ", "\ufeff", "é", `\x41`, `\101`, `\/`, `\a\b\f\v`, `\ x`}

// stringSoup builds a field whose value is a single- or multi-line string or bytes literal (with
// 0-2 hashes) made of hostile line fragments: the scanner's multi-line and escape paths.
func stringSoup(t *rapid.T) []byte {
	hashes := strings.Repeat("#", rapid.IntRange(0, 2).Draw(t, "hashes"))
	q := rapid.SampledFrom([]string{`"`, `'`}).Draw(t, "q")
	multi := rapid.IntRange(0, 3).Draw(t, "multi") != 0
	indent := rapid.SampledFrom([]string{"", "\t", "  ", "\t "}).Draw(t, "indent")
	var sb strings.Builder
	sb.WriteString("x: ")
	sb.WriteString(hashes)
	if multi {
		sb.WriteString(strings.Repeat(q, 3))
		sb.WriteString("\n")
		n := rapid.IntRange(0, 5).Draw(t, "nlines")
		for i := 0; i < n; i++ {
			if rapid.IntRange(0, 5).Draw(t, "noindent") != 0 {
				sb.WriteString(indent)
			}
			sb.WriteString(rapid.SampledFrom(soupLines).Draw(t, "line"))
			sb.WriteString(rapid.SampledFrom([]string{"\n", "\n", "\n", "\r\n", ""}).Draw(t, "nl"))
		}
		sb.WriteString(indent)
		if rapid.IntRange(0, 7).Draw(t, "unterminated") != 0 {
			sb.WriteString(strings.Repeat(q, 3))
		}
	} else {
		sb.WriteString(q)
		n := rapid.IntRange(0, 4).Draw(t, "nfrag")
		for i := 0; i < n; i++ {
			sb.WriteString(rapid.SampledFrom(soupLines).Draw(t, "line"))
		}
		if rapid.IntRange(0, 7).Draw(t, "unterminated") != 0 {
			sb.WriteString(q)
		}
	}
	if rapid.IntRange(0, 7).Draw(t, "nohash") != 0 {
		sb.WriteString(hashes)
	}
	sb.WriteString(rapid.SampledFrom([]string{"\n", "\ny: 1\n", "", " & string\n"}).Draw(t, "tail"))
	return []byte(sb.String())
}
