// Package c09: the parser is total, positions are sane, literals round-trip
// through quoting, and parser / scanner / literal package agree.
package c09

import (
	"bytes"
	"fmt"
	"os"
	"regexp"
	"strings"
	"testing"
	"unicode/utf8"

	"cuelang.org/go/cue/ast"
	"cuelang.org/go/cue/errors"
	"cuelang.org/go/cue/literal"
	"cuelang.org/go/cue/parser"
	"cuelang.org/go/cue/scanner"
	"cuelang.org/go/cue/token"
	"cuelang.org/go/verifh/corpus"
	"cuelang.org/go/verifh/evid"
	"pgregory.net/rapid"
)

// ---- 1. totality and positions --------------------------------------------

type ParseCase struct {
	Src  []byte
	Mode int // index into modes
	Expr bool
	Kind string
}

var modes = [][]parser.Option{
	{parser.ParseComments},
	{},
	{parser.ParseComments, parser.AllErrors},
	{parser.ImportsOnly},
	{parser.PackageClauseOnly},
	{parser.ParseComments, parser.AllowPartial},
}

func trunc(b []byte) string {
	if len(b) > 200 {
		return fmt.Sprintf("%q…(%d bytes)", b[:200], len(b))
	}
	return fmt.Sprintf("%q", b)
}

func checkTree(root ast.Node, n int) (msg string, nodes, nopos int) {
	type span struct{ lo, hi int }
	var stack []span
	var lastEnd []int // per depth: end of previous sibling
	bad := ""
	ast.Walk(root, func(nd ast.Node) bool {
		switch nd.(type) {
		case *ast.CommentGroup, *ast.Comment:
			// comments precede or follow their owner by design
			stack = append(stack, span{-1, -1})
			lastEnd = append(lastEnd, -1)
			return true
		}
		nodes++
		p, e := nd.Pos(), nd.End()
		if !p.IsValid() || !e.IsValid() || !p.HasAbsPos() || !e.HasAbsPos() {
			nopos++
			stack = append(stack, span{-1, -1})
			lastEnd = append(lastEnd, -1)
			return true
		}
		lo, hi := p.Offset(), e.Offset()
		if bad == "" && (lo < 0 || hi > n || lo > hi) {
			bad = fmt.Sprintf("%T has range [%d,%d] in an input of %d bytes", nd, lo, hi, n)
		}
		if _, isFile := nd.(*ast.File); !isFile {
			for i := len(stack) - 1; i >= 0; i-- {
				if stack[i].lo < 0 {
					continue
				}
				if bad == "" && (lo < stack[i].lo || hi > stack[i].hi) {
					bad = fmt.Sprintf("%T [%d,%d] lies outside its parent [%d,%d]", nd, lo, hi, stack[i].lo, stack[i].hi)
				}
				break
			}
		}
		// siblings ordered and non-overlapping
		d := len(stack)
		if d > 0 && lastEnd[d-1] >= 0 && bad == "" && lo < lastEnd[d-1] {
			bad = fmt.Sprintf("%T [%d,%d] starts before the end %d of its preceding sibling", nd, lo, hi, lastEnd[d-1])
		}
		if d > 0 {
			lastEnd[d-1] = hi
		}
		stack = append(stack, span{lo, hi})
		lastEnd = append(lastEnd, -1)
		return true
	}, func(ast.Node) {
		stack = stack[:len(stack)-1]
		lastEnd = lastEnd[:len(lastEnd)-1]
	})
	return bad, nodes, nopos
}

func runParse(c ParseCase) (res evid.Result) {
	res.Classes = []string{c.Kind}
	res.Note = trunc(c.Src)
	defer func() {
		if r := recover(); r != nil {
			res.Fail = fmt.Sprintf("parser panicked: %v on %s", r, trunc(c.Src))
		}
	}()
	if excl && !c.Expr && bytes.Contains(c.Src, []byte("~(")) {
		// known finding F44: error recovery inside a postfix alias "x"~(N,: 1 yields overlapping siblings
		res.Skip, res.Excluded = true, "NoPostfixAlias(F44)"
		return
	}
	n := len(c.Src)
	var root ast.Node
	var err error
	if c.Expr {
		var e ast.Expr
		e, err = parser.ParseExpr("x.cue", c.Src, modes[c.Mode%len(modes)]...)
		if e != nil {
			root = e
		}
	} else {
		var f *ast.File
		f, err = parser.ParseFile("x.cue", c.Src, modes[c.Mode%len(modes)]...)
		if f != nil {
			root = f
		}
	}
	if root == nil && err == nil {
		res.Fail = "parser returned neither a tree nor an error for " + trunc(c.Src)
		return
	}
	nerr := 0
	for _, e := range errors.Errors(err) {
		nerr++
		for _, p := range errors.Positions(e) {
			if p.IsValid() && p.HasAbsPos() && (p.Offset() < 0 || p.Offset() > n) {
				res.Fail = fmt.Sprintf("error position offset %d outside the input of %d bytes: %v; input %s", p.Offset(), n, e, trunc(c.Src))
				return
			}
			if p.IsValid() && p.Line() < 1 {
				res.Fail = fmt.Sprintf("error position with line %d: %v; input %s", p.Line(), e, trunc(c.Src))
				return
			}
		}
	}
	nodes := 0
	if root != nil {
		var bad string
		var nopos int
		bad, nodes, nopos = checkTree(root, n)
		evid.Count("nodes", nodes)
		evid.Count("nodes_without_position", nopos)
		if bad != "" {
			res.Fail = bad + "; input " + trunc(c.Src)
			return
		}
	}
	if nerr > 0 {
		res.Classes = append(res.Classes, "has-errors")
	} else {
		res.Classes = append(res.Classes, "parses")
	}
	res.NonTrivial = nerr > 0 && nodes > 1
	return
}

var soup = []string{"a", "b", "_", "_|_", "#D", "_#h", "x1", "if", "for", "in", "let", "import", "package", "true", "false", "null", "int", "string",
	"0", "1", "1.5", ".5", "1e3", "0x1F", "0b1", "0o7", "1K", "1.5Ki", "1_000", "0x", "1e", "1.", "08",
	`"s"`, `'b'`, `"\(a)"`, `"\(`, `"""`, `'''`, `#"x"#`, `#"`, `"#`, `##"a"##`, `"\u00e9"`, `"\x"`, `"\`, "\"\"\"\n\tx\n\t\"\"\"",
	"{", "}", "[", "]", "(", ")", ",", ":", "::", ".", "...", "?", "!", "=", "==", "!=", "<", "<=", ">", ">=", "=~", "!~", "&", "&&", "|", "||", "*", "+", "-", "/", "<-", "->",
	"@attr(x)", "@a(", "// c\n", "/* c */", "\n", " ", "\t", "\r\n", "\r", "\x00", "\xff", "\xef\xbb\xbf", "é", "\u2028", "#", "\\", "$", "`", "~", "^", "%", ";"}

func genParse(t *rapid.T) ParseCase {
	files := corpus.Files(2000)
	c := ParseCase{Mode: rapid.IntRange(0, len(modes)-1).Draw(t, "mode"), Expr: rapid.IntRange(0, 5).Draw(t, "expr") == 0}
	switch k := rapid.IntRange(0, 49).Draw(t, "kind"); {
	case k < 24:
		c.Kind = "corpus-mutation"
		f := files[rapid.IntRange(0, len(files)-1).Draw(t, "file")]
		c.Src = corpus.Mutate(t, f.Data, rapid.IntRange(0, 4).Draw(t, "nmut"), files)
	case k < 34:
		c.Kind = "string-soup"
		c.Src = stringSoup(t)
	case k < 44:
		c.Kind = "token-soup"
		n := rapid.IntRange(1, 30).Draw(t, "ntok")
		var sb strings.Builder
		for i := 0; i < n; i++ {
			sb.WriteString(rapid.SampledFrom(soup).Draw(t, "tok"))
			if rapid.Bool().Draw(t, "sp") {
				sb.WriteByte(' ')
			}
		}
		c.Src = []byte(sb.String())
	case k == 44:
		c.Kind = "deep-nesting"
		open := rapid.SampledFrom([]string{"[", "{a:", "(", "-", "!", "a&", "[for x in", "{", "a.b(", "\"\\("}).Draw(t, "open")
		depth := rapid.SampledFrom([]int{10, 100, 1000, 3000, 9999, 10000, 10001, 20000}).Draw(t, "depth")
		c.Src = []byte(strings.Repeat(open, depth))
		if rapid.Bool().Draw(t, "tail") {
			c.Src = append(c.Src, '1')
		}
	default:
		c.Kind = "random-bytes"
		c.Src = rapid.SliceOfN(rapid.Byte(), 0, 64).Draw(t, "bytes")
	}
	if len(c.Src) > 4096 && c.Kind != "deep-nesting" {
		c.Src = c.Src[:4096]
	}
	return c
}

func TestParse(t *testing.T) {
	evid.Main(t, evid.Check[ParseCase]{Name: "parse", Gen: genParse, Run: runParse, Journal: true})
}

// TestParseCorpus: every corpus file unmodified, in every mode (enumeration).
func TestParseCorpus(t *testing.T) {
	shard, n := evid.Shard()
	files := corpus.Files(1 << 20)
	evid.Enumerate(t, evid.Check[ParseCase]{Name: "parse-corpus", Run: runParse, Journal: true}, func(yield func(ParseCase) bool) {
		for i, f := range files {
			if i%n != shard {
				continue
			}
			for m := range modes {
				if !yield(ParseCase{Src: f.Data, Mode: m, Kind: "corpus"}) {
					return
				}
			}
		}
	}, true)
}

// ---- 2. quoting round trip ---------------------------------------------------

type QuoteCase struct {
	S    []byte
	Form string // string label bytes
	Opts []string
}

func buildForm(c QuoteCase) literal.Form {
	var f literal.Form
	switch c.Form {
	case "string":
		f = literal.String
	case "label":
		f = literal.Label
	default:
		f = literal.Bytes
	}
	for _, o := range c.Opts {
		switch {
		case o == "ascii":
			f = f.WithASCIIOnly()
		case o == "graphic":
			f = f.WithGraphicOnly()
		case o == "hashes":
			f = f.WithOptionalHashes()
		case strings.HasPrefix(o, "tab"):
			f = f.WithTabIndent(int(o[3] - '0'))
		case strings.HasPrefix(o, "opttab"):
			f = f.WithOptionalTabIndent(int(o[6] - '0'))
		}
	}
	return f
}

func runQuote(c QuoteCase) (res evid.Result) {
	s := string(c.S)
	res.Classes = []string{c.Form}
	for _, o := range c.Opts {
		res.Classes = append(res.Classes, "opt:"+strings.TrimRight(o, "0123456789"))
	}
	res.Note = fmt.Sprintf("%q", s)
	defer func() {
		if r := recover(); r != nil {
			res.Fail = fmt.Sprintf("panic: %v quoting %q as %s %v", r, s, c.Form, c.Opts)
		}
	}()
	if c.Form != "bytes" && !utf8.ValidString(s) {
		res.Skip = true // String forms are documented as lossy for invalid UTF-8
		return
	}
	q := buildForm(c).Quote(s)
	got, err := literal.Unquote(q)
	if err != nil {
		res.Fail = fmt.Sprintf("%s%v.Quote(%q) = %s does not unquote: %v", c.Form, c.Opts, s, q, err)
		return
	}
	if got != s {
		res.Fail = fmt.Sprintf("%s%v.Quote(%q) = %s unquotes to %q", c.Form, c.Opts, s, q, got)
		return
	}
	for _, o := range c.Opts {
		if o == "ascii" {
			for i := 0; i < len(q); i++ {
				if q[i] >= 0x80 {
					res.Fail = fmt.Sprintf("%s%v.Quote(%q) = %q contains a non-ASCII byte", c.Form, c.Opts, s, q)
					return
				}
			}
		}
	}
	// the scanner must see exactly one string token, the parser one BasicLit with the same text
	var sc scanner.Scanner
	nerr := 0
	file := token.NewFile("q.cue", -1, len(q))
	sc.Init(file, []byte(q), func(token.Pos, string, []interface{}) { nerr++ }, 0)
	_, tok, lit := sc.Scan()
	_, tok2, _ := sc.Scan()
	if nerr != 0 || tok != token.STRING || lit != q || (tok2 != token.EOF && tok2 != token.COMMA) {
		res.Fail = fmt.Sprintf("%s%v.Quote(%q) = %s is scanned as %v %q then %v (%d errors)", c.Form, c.Opts, s, q, tok, lit, tok2, nerr)
		return
	}
	e, err := parser.ParseExpr("q.cue", q)
	if err != nil {
		res.Fail = fmt.Sprintf("%s%v.Quote(%q) = %s does not parse: %v", c.Form, c.Opts, s, q, err)
		return
	}
	bl, ok := e.(*ast.BasicLit)
	if !ok || bl.Value != q || bl.Kind != token.STRING {
		res.Fail = fmt.Sprintf("%s%v.Quote(%q) = %s parses as %T", c.Form, c.Opts, s, q, e)
		return
	}
	res.NonTrivial = strings.ContainsAny(s, "\"'\\#\n\r") || strings.IndexFunc(s, func(r rune) bool { return r < 0x20 || r == 0x7f || r == utf8.RuneError || r > 0xffff }) >= 0
	return
}

var hostile = []string{"", "\"", "'", "\"\"", "''", "\"\"\"", "'''", "\\", "#", "##", "\"#", "'#", "\"##", "\\#", "\\(", "\\#(", "\n", "\r", "\r\n", "\t", " ", "\x00", "\x7f",
	"\u00a0", "\u00ad", "\u2028", "\u2029", "\ufeff", "\ufffd", "\U0001f600", "\U0010ffff", "é", "e\u0301", "a", "abc", "\"\"\"#", "'''#", "\n\t", "\n ", " \n", "\\n", "\\u0000", "$", "\x80", "\xff", "\xc3", "\xed\xa0\x80", "\xf4\x90\x80\x80"}

func genQuote(t *rapid.T) QuoteCase {
	n := rapid.IntRange(0, 6).Draw(t, "nparts")
	var sb strings.Builder
	for i := 0; i < n; i++ {
		if rapid.IntRange(0, 4).Draw(t, "rnd") == 0 {
			sb.WriteString(string(rapid.Rune().Draw(t, "rune")))
		} else {
			sb.WriteString(rapid.SampledFrom(hostile).Draw(t, "part"))
		}
	}
	c := QuoteCase{S: []byte(sb.String()), Form: rapid.SampledFrom([]string{"string", "label", "bytes", "bytes"}).Draw(t, "form")}
	for _, o := range []string{"ascii", "graphic", "hashes"} {
		if rapid.IntRange(0, 2).Draw(t, o) == 0 {
			c.Opts = append(c.Opts, o)
		}
	}
	switch rapid.IntRange(0, 3).Draw(t, "ml") {
	case 0:
		c.Opts = append(c.Opts, fmt.Sprintf("tab%d", rapid.IntRange(0, 3).Draw(t, "tabs")))
	case 1:
		c.Opts = append(c.Opts, fmt.Sprintf("opttab%d", rapid.IntRange(0, 3).Draw(t, "tabs")))
	}
	return c
}

func TestQuote(t *testing.T) {
	evid.Main(t, evid.Check[QuoteCase]{Name: "quote", Gen: genQuote, Run: runQuote})
}

// ---- 3. agreement between literal package, scanner and parser -----------------

// Exclusions tied to known findings (off in replay mode so that witnesses still fail).
var excl = os.Getenv("VERIF_MODE") != "replay"

type AgreeCase struct {
	Class string // num string ident
	Text  string
}

func scanOne(s string) (token.Token, string, bool) {
	var sc scanner.Scanner
	nerr := 0
	file := token.NewFile("q.cue", -1, len(s))
	sc.Init(file, []byte(s), func(token.Pos, string, []interface{}) { nerr++ }, scanner.DontInsertCommas)
	_, tok, lit := sc.Scan()
	_, tok2, _ := sc.Scan()
	return tok, lit, nerr == 0 && tok2 == token.EOF && lit == s
}

func runAgree(c AgreeCase) (res evid.Result) {
	res.Classes = []string{c.Class}
	defer func() {
		if r := recover(); r != nil {
			res.Fail = fmt.Sprintf("panic: %v on %s %q", r, c.Class, c.Text)
		}
	}()
	s := c.Text
	switch c.Class {
	case "num":
		var ni literal.NumInfo
		lerr := literal.ParseNum(s, &ni)
		tok, _, one := scanOne(s)
		sOK := one && (tok == token.INT || tok == token.FLOAT)
		e, perr := parser.ParseExpr("q.cue", s)
		bl, isLit := e.(*ast.BasicLit)
		pOK := perr == nil && isLit && bl.Value == s && (bl.Kind == token.INT || bl.Kind == token.FLOAT)
		// ParseNum accepts a leading sign which is an operator for scanner and parser
		if strings.HasPrefix(s, "-") || strings.HasPrefix(s, "+") {
			res.Skip = true
			return
		}
		lOK := lerr == nil
		if excl && lerr != nil && strings.Contains(lerr.Error(), "cannot be represented as int") {
			// known finding F36 (see C06): a fractional mantissa whose product with the multiplier is not integral
			res.Skip, res.Excluded = true, "NoFractionalSIProduct(F36)"
			return
		}
		if excl && len(s) >= 2 && s[0] == '0' && (s[1] == '_' || (s[1] >= '0' && s[1] <= '9')) && strings.ContainsAny(s, ".eE") {
			// known finding F41: float_lit = decimals "." ... allows a leading zero / underscore
			// in the integer part (0_0.1, 00.5), literal.ParseNum accepts it, the scanner does not
			res.Skip, res.Excluded = true, "NoLeadingZeroFloat(F41)"
			return
		}
		if excl && badUnderscore(s) {
			// known finding F40: literal.ParseNum does not check the placement of underscores ("_0", "._5")
			res.Skip, res.Excluded = true, "NoLeadingUnderscoreNumber(F40)"
			return
		}
		if lOK != sOK || sOK != pOK {
			res.Fail = fmt.Sprintf("number spelling %q: literal.ParseNum ok=%v (%v), scanner one clean token=%v (%v), parser BasicLit=%v (%v)", s, lOK, lerr, sOK, tok, pOK, perr)
			return
		}
		if lOK {
			if (tok == token.INT) != ni.IsInt() {
				res.Fail = fmt.Sprintf("number spelling %q: scanner says %v, literal says IsInt=%v", s, tok, ni.IsInt())
			}
			res.Classes = append(res.Classes, "accepted")
		} else {
			res.Classes = append(res.Classes, "rejected")
		}
		res.NonTrivial = true
	case "string":
		_, lerr := literal.Unquote(s)
		tok, _, one := scanOne(s)
		sOK := one && tok == token.STRING
		e, perr := parser.ParseExpr("q.cue", s)
		bl, isLit := e.(*ast.BasicLit)
		pOK := perr == nil && isLit && bl.Value == s && bl.Kind == token.STRING
		lOK := lerr == nil
		if strings.Contains(s, `\(`) || strings.Contains(s, `\#(`) {
			res.Skip = true // interpolations are not simple literals
			return
		}
		if excl && loneSurrogate.MatchString(s) {
			// known finding F39: scanner and parser accept a lone surrogate escape, Unquote rejects it
			res.Skip, res.Excluded = true, "NoLoneSurrogateEscape(F39)"
			return
		}
		if excl && strings.Contains(s, "\\\n") {
			// known finding F45: Unquote implements backslash-newline line continuation, the scanner rejects it
			res.Skip, res.Excluded = true, "NoEscapedNewline(F45)"
			return
		}
		if excl && tripleOpen.MatchString(s) {
			// known finding F42: Unquote reads #"""x"# as a single-line string, the scanner as an unterminated multiline opener
			res.Skip, res.Excluded = true, "NoTripleQuoteOpenerInSingleLine(F42)"
			return
		}
		if lOK != pOK || (sOK && !lOK) {
			// the scanner alone does not validate escapes; it may accept more than Unquote
			res.Fail = fmt.Sprintf("string spelling %q: literal.Unquote ok=%v (%v), scanner one clean token=%v, parser BasicLit=%v (%v)", s, lOK, lerr, sOK, pOK, perr)
			return
		}
		if lOK {
			res.Classes = append(res.Classes, "accepted")
		} else {
			res.Classes = append(res.Classes, "rejected")
		}
		res.NonTrivial = true
	case "ident":
		vOK := ast.IsValidIdent(s)
		tok, _, one := scanOne(s)
		sOK := one && tok == token.IDENT
		e, perr := parser.ParseExpr("q.cue", s)
		id, isID := e.(*ast.Ident)
		pOK := perr == nil && isID && id.Name == s
		if tok.IsKeyword() || s == "_|_" {
			res.Skip = true
			return
		}
		if vOK != sOK || sOK != pOK {
			res.Fail = fmt.Sprintf("identifier spelling %q: ast.IsValidIdent=%v, scanner one clean IDENT=%v (%v), parser Ident=%v (%v)", s, vOK, sOK, tok, pOK, perr)
			return
		}
		if vOK {
			res.Classes = append(res.Classes, "accepted")
		} else {
			res.Classes = append(res.Classes, "rejected")
		}
		res.NonTrivial = true
	}
	return
}

// badUnderscore reports an underscore that is not between two digits.
func badUnderscore(s string) bool {
	isDig := func(b byte) bool {
		return b >= '0' && b <= '9' || b >= 'a' && b <= 'f' || b >= 'A' && b <= 'F'
	}
	for i := 0; i < len(s); i++ {
		if s[i] == '_' && (i == 0 || i == len(s)-1 || !isDig(s[i-1]) || !isDig(s[i+1])) {
			return true
		}
	}
	return false
}

var tripleOpen = regexp.MustCompile(`^#*("""|''')[^\n]`)

var loneSurrogate = regexp.MustCompile(`(?i)\\u?d[89a-f][0-9a-f]{2}`)

func mutateText(t *rapid.T, s string, alphabet string) string {
	n := rapid.IntRange(0, 2).Draw(t, "nmut")
	b := []byte(s)
	for i := 0; i < n; i++ {
		ch := alphabet[rapid.IntRange(0, len(alphabet)-1).Draw(t, "ch")]
		if len(b) == 0 {
			b = append(b, ch)
			continue
		}
		p := rapid.IntRange(0, len(b)-1).Draw(t, "pos")
		switch rapid.IntRange(0, 2).Draw(t, "mk") {
		case 0:
			b[p] = ch
		case 1:
			b = append(b[:p], append([]byte{ch}, b[p:]...)...)
		case 2:
			b = append(b[:p], b[p+1:]...)
		}
	}
	return string(b)
}

func genAgreeNum(t *rapid.T) string {
	base := rapid.SampledFrom([]string{"0", "1", "12", "10", "1_000", "1.5", ".5", "1.", "1e3", "1E-3", "1.5e+10", "0x1F", "0X_1", "0b101", "0o17", "017", "1K", "1Ki", "2Mi", "1.5M", ".5G", "1_0.0_1", "0.0", "00", "1__0", "1_", "7_", "0x", "0b2", "0o8", "1e", "1e+", "1.e3", "1Kib", "1k", "1.5Ki", "0.5Ti", "1P", "1Pi", "0e0", "0_0", "0b", "0B1", "0O7", "1\x00"}).Draw(t, "num")
	return mutateText(t, base, "0123456789_.eE+-xXbBoOKMGTPi abcfF")
}

func genAgree(t *rapid.T) AgreeCase {
	switch rapid.IntRange(0, 2).Draw(t, "class") {
	case 0:
		return AgreeCase{"num", genAgreeNum(t)}
	case 99:
		base := rapid.SampledFrom([]string{"0", "1", "12", "1_000", "1.5", ".5", "1.", "1e3", "1E-3", "1.5e+10", "0x1F", "0X_1", "0b101", "0o17", "017", "1K", "1Ki", "1.5M", ".5G", "1_0.0_1", "0.0", "00", "1__0", "1_", "0x", "0b2", "0o8", "1e", "1e+", "1.e3", "1Kib", "1k", "1.5Ki", "0.5Ti", "1P", "1Pi", "0e0", "0_0", "0b", "0B1", "0O7"}).Draw(t, "num")
		return AgreeCase{"num", mutateText(t, base, "0123456789_.eE+-xXbBoOKMGTPi abcfF")}
	case 1:
		base := rapid.SampledFrom([]string{`""`, `"a"`, `'a'`, `"\n"`, `"\u00e9"`, `"\U0001f600"`, `"\x41"`, `'\x41'`, `'\377'`, `"\377"`, `#"a"#`, `#"\#n"#`, `##"a"#"##`, `"\q"`, `"a`, `'a"`, `"""` + "\n\ta\n\t" + `"""`, `'''` + "\n\ta\n\t" + `'''`, `"""` + "\na\n" + `"""`, `"""a"""`, `#"""` + "\n\ta\n\t" + `"""#`, `"\u12"`, `"\ud800"`, `'\ud800'`, `"\/"`, `"\a\b\f\n\r\t\v\\\'\""`, `'\''`, `"\'"`, `'\"'`}).Draw(t, "str")
		return AgreeCase{"string", mutateText(t, base, "\"'#\\nux0189aé\n\t ")}
	default:
		base := rapid.SampledFrom([]string{"a", "_a", "#a", "_#a", "a1", "_", "#", "_#", "__a", "a_b", "$a", "a$", "é", "aé", "1a", "a-b", "a.b", "#_a", "##a", "_#_", "a#", "A", "Z9", "\u03b1", "\u0660", "a\u0660", "_1", "#1", "_#1", "__", "___x"}).Draw(t, "id")
		return AgreeCase{"ident", mutateText(t, base, "a_#$1Aé- .")}
	}
}

func TestAgree(t *testing.T) {
	evid.Main(t, evid.Check[AgreeCase]{Name: "agree", Gen: genAgree, Run: runAgree})
}

// ---- 4. a reused literal.NumInfo behaves like a fresh one (history independence) ----

type ReuseCase struct {
	Seq []string
}

func describeNum(ni *literal.NumInfo, err error) string {
	if err != nil {
		return "error"
	}
	return fmt.Sprintf("ok int=%v mult=%v str=%s", ni.IsInt(), ni.Multiplier(), ni.String())
}

func runReuse(c ReuseCase) (res evid.Result) {
	defer func() {
		if r := recover(); r != nil {
			res.Fail = fmt.Sprintf("panic: %v on sequence %q", r, c.Seq)
		}
	}()
	var shared literal.NumInfo
	nerr := 0
	for i, s := range c.Seq {
		var fresh literal.NumInfo
		want := describeNum(&fresh, literal.ParseNum(s, &fresh))
		got := describeNum(&shared, literal.ParseNum(s, &shared))
		if want == "error" {
			nerr++
		}
		if got != want {
			res.Fail = fmt.Sprintf("ParseNum(%q) on a NumInfo reused after %q gives %q, a fresh NumInfo gives %q", s, c.Seq[:i], got, want)
			return
		}
	}
	res.NonTrivial = nerr > 0 && nerr < len(c.Seq)
	res.Classes = []string{fmt.Sprintf("len%d", len(c.Seq))}
	return
}

func TestNumInfoReuse(t *testing.T) {
	evid.Main(t, evid.Check[ReuseCase]{Name: "numinfo-reuse", Gen: func(t *rapid.T) ReuseCase {
		n := rapid.IntRange(2, 4).Draw(t, "n")
		var c ReuseCase
		for i := 0; i < n; i++ {
			c.Seq = append(c.Seq, genAgreeNum(t))
		}
		return c
	}, Run: runReuse})
}
