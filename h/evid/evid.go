// Package evid is the plumbing shared by every check: it runs a property
// either as a generated search (rapid, or an explicit enumeration), or as a
// plain replay of one saved case, collects the statistics that end up in
// evidence/<id>.json and writes the shrunk failing case as a replay file.
//
// Environment (set by driver.py):
//
//	VERIF_MODE     search (default) | replay
//	VERIF_STATS    file the per-shard statistics are written to
//	VERIF_FAILOUT  file a failing (shrunk) case is written to
//	VERIF_JOURNAL  file the case about to run is written to (crash attribution)
//	VERIF_REPLAY   replay mode: file holding {"check":..., "case":...}
//	VERIF_SCALE    multiplier applied by checks to their own size knobs
package evid

import (
	"encoding/json"
	"fmt"
	"hash/fnv"
	"os"
	"sort"
	"strconv"
	"sync"
	"testing"
	"time"

	"pgregory.net/rapid"
)

// Result is what running one case yields.
type Result struct {
	Fail       string   // non-empty: the property is violated by this case
	NonTrivial bool     // case is non-trivial by the check's stated rule
	Classes    []string // generator-distribution labels
	Key        string   // text identifying the case for distinct counting ("" = JSON of the case)
	Skip       bool     // case is outside the domain (counted, not evaluated further)
	Excluded   string   // name of an exclusion predicate that removed this case
	Note       string   // free text kept with samples
}

// Check describes one executable property over cases of type C.
type Check[C any] struct {
	Name    string
	Gen     func(t *rapid.T) C
	Run     func(c C) Result
	Journal bool // write the case to VERIF_JOURNAL before running it
}

type replayFile struct {
	Property string          `json:"property,omitempty"`
	Check    string          `json:"check"`
	Case     json.RawMessage `json:"case"`
	Message  string          `json:"message,omitempty"`
	Seed     string          `json:"seed,omitempty"`
}

type stats struct {
	mu         sync.Mutex
	Check      string            `json:"check"`
	Cases      int               `json:"cases"`
	Skipped    int               `json:"skipped"`
	NonTrivial int               `json:"nontrivial"`
	Classes    map[string]int    `json:"classes"`
	Excluded   map[string]int    `json:"excluded"`
	Samples    []sample          `json:"samples"`
	Hashes     []uint64          `json:"hashes"`
	Extra      map[string]any    `json:"extra,omitempty"`
	Exhaustive bool              `json:"exhaustive"`
	WallS      float64           `json:"wall_s"`
	Failed     bool              `json:"failed"`
	seen       map[uint64]bool
	sampled    map[string]bool
	failing    bool
	start      time.Time
}

type sample struct {
	Class string `json:"class"`
	Case  any    `json:"case"`
	Note  string `json:"note,omitempty"`
}

func newStats(name string) *stats {
	return &stats{Check: name, Classes: map[string]int{}, Excluded: map[string]int{},
		seen: map[uint64]bool{}, sampled: map[string]bool{}, Extra: map[string]any{}, start: time.Now()}
}

func (s *stats) record(c any, r Result) {
	s.mu.Lock()
	defer s.mu.Unlock()
	if s.failing {
		return // shrinking in progress: do not count shrink candidates
	}
	s.Cases++
	if r.Excluded != "" {
		s.Excluded[r.Excluded]++
	}
	if r.Skip {
		s.Skipped++
		return
	}
	for _, cl := range r.Classes {
		s.Classes[cl]++
	}
	if r.NonTrivial {
		s.NonTrivial++
		key := r.Key
		if key == "" {
			b, _ := json.Marshal(c)
			key = string(b)
		}
		h := fnv.New64a()
		h.Write([]byte(key))
		hv := h.Sum64()
		if !s.seen[hv] {
			s.seen[hv] = true
		}
	}
	// first case of each class becomes a sample (at most 12 samples)
	if len(s.Samples) < 12 {
		cls := r.Classes
		if len(cls) == 0 {
			cls = []string{"-"}
		}
		for _, cl := range cls {
			if !s.sampled[cl] && (r.NonTrivial || len(s.Samples) < 2) {
				s.sampled[cl] = true
				s.Samples = append(s.Samples, sample{cl, c, r.Note})
				break
			}
		}
	}
}

func (s *stats) flush() {
	s.mu.Lock()
	defer s.mu.Unlock()
	p := os.Getenv("VERIF_STATS")
	if p == "" {
		return
	}
	s.Hashes = s.Hashes[:0]
	for h := range s.seen {
		s.Hashes = append(s.Hashes, h)
	}
	sort.Slice(s.Hashes, func(i, j int) bool { return s.Hashes[i] < s.Hashes[j] })
	s.WallS = time.Since(s.start).Seconds()
	b, err := json.Marshal(s)
	if err != nil {
		// samples that do not marshal must not lose the counts
		s.Samples = nil
		b, _ = json.Marshal(s)
	}
	os.WriteFile(p, b, 0o644)
}

// Extra lets a check add its own measured keys to the evidence.
var extraMu sync.Mutex
var extra = map[string]float64{}

// Count adds n to a named counter that is merged (summed) into the evidence.
func Count(name string, n int) {
	extraMu.Lock()
	extra[name] += float64(n)
	extraMu.Unlock()
}

func journal(c any) {
	p := os.Getenv("VERIF_JOURNAL")
	if p == "" {
		return
	}
	b, err := json.Marshal(c)
	if err != nil {
		return
	}
	os.WriteFile(p, b, 0o644)
}

func writeFail(name string, c any, msg string) {
	p := os.Getenv("VERIF_FAILOUT")
	if p == "" {
		return
	}
	cb, _ := json.Marshal(c)
	b, _ := json.MarshalIndent(replayFile{Check: name, Case: cb, Message: msg, Seed: os.Getenv("VERIF_SHARDSEED")}, "", " ")
	os.WriteFile(p, b, 0o644)
}

// Scale returns n multiplied by VERIF_SCALE (default 1), at least 1.
func Scale(n int) int {
	f := 1.0
	if s := os.Getenv("VERIF_SCALE"); s != "" {
		if x, err := strconv.ParseFloat(s, 64); err == nil && x > 0 {
			f = x
		}
	}
	r := int(float64(n) * f)
	if r < 1 {
		r = 1
	}
	return r
}

// Thorough reports whether the thorough tier is running.
func Thorough() bool { return os.Getenv("VERIF_TIER") == "thorough" }

// Shard returns this process's shard index and the number of shards.
func Shard() (int, int) {
	i, _ := strconv.Atoi(os.Getenv("VERIF_SHARD"))
	n, _ := strconv.Atoi(os.Getenv("VERIF_NSHARDS"))
	if n <= 0 {
		n = 1
	}
	return i, n
}

func replaying(name string) (json.RawMessage, bool, bool) {
	if os.Getenv("VERIF_MODE") != "replay" {
		return nil, false, false
	}
	b, err := os.ReadFile(os.Getenv("VERIF_REPLAY"))
	if err != nil {
		fmt.Fprintf(os.Stderr, "replay: %v\n", err)
		return nil, true, false
	}
	var rf replayFile
	if err := json.Unmarshal(b, &rf); err != nil {
		fmt.Fprintf(os.Stderr, "replay: %v\n", err)
		return nil, true, false
	}
	if rf.Check != name {
		return nil, true, false
	}
	return rf.Case, true, true
}

// Main runs ck as a rapid search, or replays one case, depending on VERIF_MODE.
func Main[C any](t *testing.T, ck Check[C]) {
	if raw, isReplay, mine := replaying(ck.Name); isReplay {
		if !mine {
			t.Skip("replay file is for another check")
		}
		var c C
		if err := json.Unmarshal(raw, &c); err != nil {
			t.Fatalf("REPLAY-BADCASE %v", err)
		}
		r := ck.Run(c)
		if r.Fail != "" {
			fmt.Printf("REPLAY-FAIL check=%s %s\n", ck.Name, r.Fail)
			t.Fail()
			return
		}
		fmt.Printf("REPLAY-PASS check=%s\n", ck.Name)
		return
	}
	st := newStats(ck.Name)
	var last *C
	var lastMsg string
	defer func() {
		extraMu.Lock()
		for k, v := range extra {
			st.Extra[k] = v
		}
		extraMu.Unlock()
		if last != nil {
			st.Failed = true
			writeFail(ck.Name, *last, lastMsg)
		}
		st.flush()
	}()
	rapid.Check(t, func(rt *rapid.T) {
		c := ck.Gen(rt)
		if ck.Journal {
			journal(c)
		}
		r := ck.Run(c)
		st.record(c, r)
		if r.Fail != "" && os.Getenv("VERIF_KEEPGOING") != "" {
			fmt.Printf("FAILCASE: %s\n", r.Fail)
			return
		}
		if r.Fail != "" {
			st.mu.Lock()
			st.failing = true
			st.mu.Unlock()
			cc := c
			last, lastMsg = &cc, r.Fail
			rt.Fatalf("%s", r.Fail)
		}
	})
}

// Enumerate runs ck.Run over an explicit finite enumeration (no rapid). The
// enumeration is sharded by the caller through Shard(). each returns false to stop.
func Enumerate[C any](t *testing.T, ck Check[C], each func(yield func(C) bool), exhaustive bool) {
	if raw, isReplay, mine := replaying(ck.Name); isReplay {
		if !mine {
			t.Skip("replay file is for another check")
		}
		var c C
		if err := json.Unmarshal(raw, &c); err != nil {
			t.Fatalf("REPLAY-BADCASE %v", err)
		}
		r := ck.Run(c)
		if r.Fail != "" {
			fmt.Printf("REPLAY-FAIL check=%s %s\n", ck.Name, r.Fail)
			t.Fail()
			return
		}
		fmt.Printf("REPLAY-PASS check=%s\n", ck.Name)
		return
	}
	st := newStats(ck.Name)
	st.Exhaustive = exhaustive
	defer func() {
		extraMu.Lock()
		for k, v := range extra {
			st.Extra[k] = v
		}
		extraMu.Unlock()
		st.flush()
	}()
	each(func(c C) bool {
		if ck.Journal {
			journal(c)
		}
		r := ck.Run(c)
		st.record(c, r)
		if r.Fail != "" {
			if os.Getenv("VERIF_KEEPGOING") != "" { // triage aid: list every failure
				fmt.Printf("FAILCASE: %s\n", r.Fail)
				return true
			}
			st.Failed = true
			writeFail(ck.Name, c, r.Fail)
			t.Errorf("%s", r.Fail)
			return false
		}
		return true
	})
}
