// Package c05: field constraints, patterns and closedness admit exactly what the spec allows.
package c05

import (
	"fmt"
	"os"
	"strings"
	"testing"

	"cuelang.org/go/cue"
	"cuelang.org/go/cue/cuecontext"
	"cuelang.org/go/verifh/evid"
	"pgregory.net/rapid"
)

type Lit struct {
	Fields   []Field
	Pats     []Pat
	Ellipsis bool
	Embeds   []*Expr
}
type Field struct {
	Label string
	Kind  int // 0 reg 1 opt 2 req
	Val   *Expr
}
type Pat struct {
	Pat string
	Val *Expr
}
type Expr struct {
	Kind string // lit close ref and leaf
	Lit  *Lit
	Ref  int
	Args []*Expr
	Leaf string
}

var labels = []string{"a", "b", "c", "ab"}
var pats = []string{"string", `=~"^a"`, `"a" | "b"`, `!~"^a"`, `=~"b$"`}
var leaves = []string{"int", "string", "1", "2", `"x"`, "_"}

func matchPat(p, l string) bool {
	switch p {
	case "string":
		return true
	case `=~"^a"`:
		return strings.HasPrefix(l, "a")
	case `!~"^a"`:
		return !strings.HasPrefix(l, "a")
	case `=~"b$"`:
		return strings.HasSuffix(l, "b")
	}
	return l == "a" || l == "b"
}

type G struct {
	t     *rapid.T
	ndefs int
}

func (g *G) lit(depth int, allowRef int, embedDepth int) *Lit {
	l := &Lit{}
	n := rapid.IntRange(0, 3).Draw(g.t, "nf")
	for i := 0; i < n; i++ {
		k := rapid.SampledFrom([]int{0, 0, 1, 1, 2}).Draw(g.t, "kind")
		l.Fields = append(l.Fields, Field{rapid.SampledFrom(labels).Draw(g.t, "l"), k, g.val(depth, allowRef)})
	}
	if rapid.IntRange(0, 3).Draw(g.t, "hp") == 0 {
		l.Pats = append(l.Pats, Pat{rapid.SampledFrom(pats).Draw(g.t, "p"), g.val(depth, allowRef)})
		if rapid.IntRange(0, 2).Draw(g.t, "hp2") == 0 {
			// a second pattern: overlapping with, complementary to or equal to the first
			l.Pats = append(l.Pats, Pat{rapid.SampledFrom(pats).Draw(g.t, "p2"), g.val(depth, allowRef)})
		}
	}
	if rapid.IntRange(0, 5).Draw(g.t, "he") == 0 {
		l.Ellipsis = true
	}
	if embedDepth > 0 && rapid.IntRange(0, 2).Draw(g.t, "hemb") == 0 {
		e := g.structExpr(depth, allowRef, embedDepth-1, false)
		if e.Kind == "ref" {
			l.Ellipsis = false
			for i := range l.Fields {
				if l.Fields[i].Val.Kind != "leaf" {
					l.Fields[i].Val = &Expr{Kind: "leaf", Leaf: "int"}
				}
			}
			for i := range l.Pats {
				if l.Pats[i].Val.Kind != "leaf" {
					l.Pats[i].Val = &Expr{Kind: "leaf", Leaf: "int"}
				}
			}
		}
		if e.Lit != nil {
			e.Lit.Ellipsis = false
		}
		l.Embeds = append(l.Embeds, e)
	}
	return l
}

func (g *G) val(depth int, allowRef int) *Expr {
	if depth <= 0 || rapid.IntRange(0, 2).Draw(g.t, "leaf") > 0 {
		return &Expr{Kind: "leaf", Leaf: rapid.SampledFrom(leaves).Draw(g.t, "lf")}
	}
	return g.structExpr(depth-1, allowRef, 1, false)
}

func (g *G) structExpr(depth, allowRef, embedDepth int, allowAnd bool) *Expr {
	k := rapid.IntRange(0, 5).Draw(g.t, "sk")
	switch {
	case k <= 2:
		return &Expr{Kind: "lit", Lit: g.lit(depth, allowRef, embedDepth)}
	case k == 3:
		return &Expr{Kind: "close", Lit: g.lit(depth, allowRef, embedDepth)}
	case k == 4 && allowRef > 0:
		return &Expr{Kind: "ref", Ref: rapid.IntRange(0, allowRef-1).Draw(g.t, "ref")}
	case k == 5 && allowAnd:
		return &Expr{Kind: "and", Args: []*Expr{g.structExpr(depth, allowRef, embedDepth, false), g.structExpr(depth, allowRef, embedDepth, false)}}
	}
	return &Expr{Kind: "lit", Lit: g.lit(depth, allowRef, embedDepth)}
}

func (e *Expr) String() string {
	switch e.Kind {
	case "leaf":
		return e.Leaf
	case "lit":
		return e.Lit.String()
	case "close":
		return "close(" + e.Lit.String() + ")"
	case "ref":
		return fmt.Sprintf("#D%d", e.Ref)
	}
	return "(" + e.Args[0].String() + " & " + e.Args[1].String() + ")"
}
func (l *Lit) String() string {
	var s []string
	for _, f := range l.Fields {
		s = append(s, f.Label+[]string{"", "?", "!"}[f.Kind]+": "+f.Val.String())
	}
	for _, p := range l.Pats {
		s = append(s, "["+p.Pat+"]: "+p.Val.String())
	}
	for _, e := range l.Embeds {
		s = append(s, e.String())
	}
	if l.Ellipsis {
		s = append(s, "...")
	}
	return "{" + strings.Join(s, ", ") + "}"
}

// ---------- model
type Group struct{ closed bool }
type Unit struct {
	lit    *Lit
	groups []*Group
	rc     bool
}
type Model struct{ defs []*Lit }

func (m *Model) flatten(e *Expr, rc bool, pg []*Group) (units []Unit, leaves []string) {
	switch e.Kind {
	case "leaf":
		return nil, []string{e.Leaf}
	case "lit":
		if rc {
			return []Unit{{e.Lit, pg, true}}, nil
		}
		return []Unit{{e.Lit, []*Group{{false}}, false}}, nil
	case "close":
		g := &Group{true}
		if rc {
			return []Unit{{e.Lit, append(append([]*Group{}, pg...), g), true}}, nil
		}
		return []Unit{{e.Lit, []*Group{g}, false}}, nil
	case "ref":
		return []Unit{{m.defs[e.Ref], []*Group{{true}}, true}}, nil
	}
	u1, l1 := m.flatten(e.Args[0], rc, pg)
	u2, l2 := m.flatten(e.Args[1], rc, pg)
	return append(u1, u2...), append(l1, l2...)
}

func (m *Model) embedUnits(u Unit) (r []Unit) {
	for _, e := range u.lit.Embeds {
		us, _ := m.flatten(e, u.rc, u.groups)
		r = append(r, us...)
	}
	return
}

func (m *Model) anyClosed(u Unit) bool {
	for _, g := range u.groups {
		if g.closed {
			return true
		}
	}
	return false
}

// effClosed: does unit u, on its own, close the struct (ignoring group mates)?
func (m *Model) effClosed(u Unit) bool {
	if u.lit.Ellipsis {
		return false
	}
	if m.anyClosed(u) {
		return true
	}
	for _, w := range m.embedUnits(u) {
		if m.effClosed(w) {
			return true
		}
	}
	return false
}

func (m *Model) hasEllipsisDeep(u Unit) bool {
	if u.lit.Ellipsis {
		return true
	}
	return false
}

func (m *Model) declares(u Unit, f string) bool {
	for _, x := range u.lit.Fields {
		if x.Label == f {
			return true
		}
	}
	for _, p := range u.lit.Pats {
		if matchPat(p.Pat, f) {
			return true
		}
	}
	for _, w := range m.embedUnits(u) {
		if w.lit.Ellipsis || m.declares(w, f) {
			return true
		}
	}
	return false
}

type cval struct {
	e  *Expr
	rc bool
	pg []*Group
}

func (m *Model) constraints(u Unit, f string) (vals []cval) {
	for _, x := range u.lit.Fields {
		if x.Label == f {
			vals = append(vals, cval{x.Val, u.rc, u.groups})
		}
	}
	for _, p := range u.lit.Pats {
		if matchPat(p.Pat, f) {
			vals = append(vals, cval{p.Val, u.rc, u.groups})
		}
	}
	for _, w := range m.embedUnits(u) {
		vals = append(vals, m.constraints(w, f)...)
	}
	return
}

func (m *Model) labelsOf(u Unit, kind int, out map[string]bool) {
	for _, x := range u.lit.Fields {
		if x.Kind == kind {
			out[x.Label] = true
		}
	}
	for _, w := range m.embedUnits(u) {
		m.labelsOf(w, kind, out)
	}
}

var leafExt = map[string]uint{"int": 0b011, "string": 0b100, "1": 0b001, "2": 0b010, `"x"`: 0b100, "_": 0b111}
var leafAtom = map[string]bool{"1": true, "2": true, `"x"`: true}

func (m *Model) admitted(units []Unit, f string) bool {
	// closed explicit groups
	seen := map[*Group]bool{}
	for _, u := range units {
		for _, g := range u.groups {
			if !g.closed || seen[g] {
				continue
			}
			seen[g] = true
			open, decl := false, false
			for _, w := range units {
				in := false
				for _, wg := range w.groups {
					if wg == g {
						in = true
					}
				}
				if !in {
					continue
				}
				if w.lit.Ellipsis {
					open = true
				}
				if m.declares(w, f) {
					decl = true
				}
			}
			if !open && !decl {
				return false
			}
		}
		if !m.anyClosed(u) && m.effClosed(u) && !m.declares(u, f) {
			return false
		}
	}
	return true
}

// check: conjunction of units + leaves must yield a concrete valid value.
func (m *Model) check(units []Unit, lvs []string) bool {
	if len(units) > 0 && len(lvs) > 0 {
		for _, l := range lvs {
			if l != "_" {
				return false
			}
		}
		lvs = nil
	}
	if len(units) == 0 {
		ext := uint(0b111)
		atom := false
		for _, l := range lvs {
			ext &= leafExt[l]
			atom = atom || leafAtom[l]
		}
		return ext != 0 && atom
	}
	present := map[string]bool{}
	req := map[string]bool{}
	for _, u := range units {
		m.labelsOf(u, 0, present)
		m.labelsOf(u, 2, req)
	}
	for f := range req {
		if !present[f] {
			return false
		}
	}
	for f := range present {
		if !m.admitted(units, f) {
			return false
		}
		var us []Unit
		var ls []string
		for _, u := range units {
			for _, cv := range m.constraints(u, f) {
				a, b := m.flatten(cv.e, cv.rc, cv.pg)
				us = append(us, a...)
				ls = append(ls, b...)
			}
		}
		if !m.check(us, ls) {
			return false
		}
	}
	return true
}

func dataLit(t *rapid.T, depth int) *Lit {
	l := &Lit{}
	n := rapid.IntRange(0, 3).Draw(t, "dn")
	seen := map[string]bool{}
	for i := 0; i < n; i++ {
		lb := rapid.SampledFrom(labels).Draw(t, "dl")
		if seen[lb] {
			continue
		}
		seen[lb] = true
		var v *Expr
		if depth > 0 && rapid.IntRange(0, 2).Draw(t, "dnest") == 0 {
			v = &Expr{Kind: "lit", Lit: dataLit(t, depth-1)}
		} else {
			v = &Expr{Kind: "leaf", Leaf: rapid.SampledFrom([]string{"1", "2", `"x"`}).Draw(t, "dv")}
		}
		l.Fields = append(l.Fields, Field{lb, 0, v})
	}
	return l
}

var excl = os.Getenv("VERIF_MODE") != "replay"

type Case struct {
	Defs   []*Lit
	Schema *Expr
	Data   *Lit
	// Form: how schema and data meet. 0: r: s & d (both through references, schema first);
	// 1: r: d & s; 2: r: s & {data}; 3: r: {data} & s; 4: r: <schema> & d; 5: r: d & <schema>
	Form int
}

func source(c Case) string {
	var src strings.Builder
	for i, l := range c.Defs {
		fmt.Fprintf(&src, "#D%d: %s\n", i, l.String())
	}
	fmt.Fprintf(&src, "s: %s\nd: %s\n", c.Schema.String(), c.Data.String())
	switch c.Form {
	case 1:
		src.WriteString("r: d & s\n")
	case 2:
		fmt.Fprintf(&src, "r: s & %s\n", c.Data.String())
	case 3:
		fmt.Fprintf(&src, "r: %s & s\n", c.Data.String())
	case 4:
		fmt.Fprintf(&src, "r: %s & d\n", c.Schema.String())
	case 5:
		fmt.Fprintf(&src, "r: d & %s\n", c.Schema.String())
	default:
		src.WriteString("r: s & d\n")
	}
	return src.String()
}

// dataFor draws a data struct that follows the schema's own field structure downwards (so that
// deep closedness is actually exercised) and then adds or omits labels on the way.
func dataFor(t *rapid.T, e *Expr, defs []*Lit, depth int) *Lit {
	var l *Lit
	switch {
	case e == nil:
	case e.Kind == "lit" || e.Kind == "close":
		l = e.Lit
	case e.Kind == "ref" && e.Ref < len(defs):
		l = defs[e.Ref]
	case e.Kind == "and":
		return dataFor(t, e.Args[rapid.IntRange(0, 1).Draw(t, "side")], defs, depth)
	}
	d := &Lit{}
	seen := map[string]bool{}
	add := func(lb string, v *Expr) {
		if !seen[lb] {
			seen[lb] = true
			d.Fields = append(d.Fields, Field{lb, 0, v})
		}
	}
	atom := func() *Expr {
		return &Expr{Kind: "leaf", Leaf: rapid.SampledFrom([]string{"1", "2", `"x"`}).Draw(t, "dv")}
	}
	if l != nil {
		for _, f := range l.Fields {
			if f.Kind == 1 && rapid.Bool().Draw(t, "omit") {
				continue
			}
			if f.Val.Kind == "leaf" || depth <= 0 {
				add(f.Label, atom())
			} else {
				add(f.Label, &Expr{Kind: "lit", Lit: dataFor(t, f.Val, defs, depth-1)})
			}
		}
		for _, p := range l.Pats {
			lb := rapid.SampledFrom(labels).Draw(t, "pl")
			if p.Val.Kind == "leaf" || depth <= 0 {
				add(lb, atom())
			} else {
				add(lb, &Expr{Kind: "lit", Lit: dataFor(t, p.Val, defs, depth-1)})
			}
		}
	}
	if rapid.IntRange(0, 1).Draw(t, "extra") == 0 {
		add(rapid.SampledFrom(labels).Draw(t, "xl"), atom())
	}
	return d
}

func hasClosing(e *Expr) bool {
	if e == nil {
		return false
	}
	switch e.Kind {
	case "close", "ref":
		return true
	case "and":
		return hasClosing(e.Args[0]) || hasClosing(e.Args[1])
	case "lit":
		for _, f := range e.Lit.Fields {
			if hasClosing(f.Val) {
				return true
			}
		}
		for _, p := range e.Lit.Pats {
			if hasClosing(p.Val) {
				return true
			}
		}
		for _, x := range e.Lit.Embeds {
			if hasClosing(x) {
				return true
			}
		}
	}
	return false
}

func run(c Case) (res evid.Result) {
	defer func() {
		if r := recover(); r != nil {
			res.Fail = fmt.Sprintf("panic: %v\n%s", r, source(c))
		}
	}()
	if e := excluded(c); excl && e != "" {
		res.Skip, res.Excluded = true, e
		return
	}
	if outsideModel(c) {
		// not a finding: the membership model puts a definition reference into a closing group of its
		// own, which is too strict when the same field is declared twice inside one definition, once
		// with a literal and once with a reference (the definition closes what it evaluates to, so the
		// two declarations allow each other's fields). Such cases are outside the model's domain.
		res.Skip = true
		res.Classes = []string{"outside-model:field-declared-by-literal-and-reference"}
		return
	}
	m := &Model{defs: c.Defs}
	src := source(c)
	us, ls := m.flatten(c.Schema, false, nil)
	us = append(us, Unit{c.Data, []*Group{{false}}, false})
	want := m.check(us, ls)
	v := cuecontext.New().CompileString(src)
	r := v.LookupPath(cue.ParsePath("r"))
	err := r.Validate(cue.Concrete(true))
	got := err == nil
	if want {
		res.Classes = []string{"accepting"}
	} else {
		res.Classes = []string{"rejecting"}
	}
	if got != want {
		res.Fail = fmt.Sprintf("s & d validates as concrete = %v (err %v), the membership model says %v\n%s", got, err, want, src)
		return
	}
	// a field of the data that the outermost literal of the schema does not declare, under a closing construct
	extra := false
	declared := map[string]bool{}
	if c.Schema.Kind == "lit" || c.Schema.Kind == "close" {
		for _, f := range c.Schema.Lit.Fields {
			declared[f.Label] = true
		}
	}
	for _, f := range c.Data.Fields {
		if !declared[f.Label] {
			extra = true
		}
	}
	res.NonTrivial = hasClosing(c.Schema) && extra
	res.Key = src
	return
}

func gen(t *rapid.T) Case {
	g := &G{t: t}
	var c Case
	nd := rapid.IntRange(0, 2).Draw(t, "nd")
	for i := 0; i < nd; i++ {
		c.Defs = append(c.Defs, g.lit(2, i, 1))
	}
	c.Schema = g.structExpr(2, nd, 1, true)
	embedsRef := false
	chk := func(e *Expr, w where) {
		if w.inEmbed && e.Kind == "ref" {
			embedsRef = true
		}
	}
	walkExpr(c.Schema, where{}, chk)
	for _, d := range c.Defs {
		walkLit(d, where{inDef: true}, chk)
	}
	// schema-aware data reaches deep into the schema; where a definition is embedded anywhere the
	// unchanged tree deviates there in several ways (F14, F82 and nested variants of them), so such
	// schemas keep the shallow random data
	if rapid.Bool().Draw(t, "schemaAware") && !(excl && embedsRef) {
		c.Data = dataFor(t, c.Schema, c.Defs, 2)
	} else {
		c.Data = dataLit(t, 2)
	}
	c.Form = rapid.SampledFrom([]int{0, 0, 1, 2, 3, 4, 5}).Draw(t, "form")
	return c
}

func TestClosedness(t *testing.T) {
	evid.Main(t, evid.Check[Case]{Name: "closedness", Gen: gen, Run: run, Journal: true})
}

// walkExpr visits every expression. inEmbed: somewhere below an embedding; inEmbedField: inside the value of
// a field or pattern of an embedded literal; inDefPattern: inside the value of a pattern constraint of a definition.
type where struct{ inEmbed, inEmbedField, inDef, inDefPattern bool }

func walkExpr(e *Expr, w where, f func(e *Expr, w where)) {
	if e == nil {
		return
	}
	f(e, w)
	switch e.Kind {
	case "and":
		walkExpr(e.Args[0], w, f)
		walkExpr(e.Args[1], w, f)
	case "lit", "close":
		walkLit(e.Lit, w, f)
	}
}

func walkLit(l *Lit, w where, f func(e *Expr, w where)) {
	fw := w
	if w.inEmbed {
		fw.inEmbedField = true
	}
	for _, x := range l.Fields {
		walkExpr(x.Val, fw, f)
	}
	pw := fw
	if w.inDef {
		pw.inDefPattern = true
	}
	for _, p := range l.Pats {
		walkExpr(p.Val, pw, f)
	}
	ew := w
	ew.inEmbed = true
	for _, x := range l.Embeds {
		walkExpr(x, ew, f)
	}
}

func outsideModel(c Case) bool {
	bad := false
	var lit func(l *Lit)
	var expr func(e *Expr)
	expr = func(e *Expr) {
		if e == nil {
			return
		}
		switch e.Kind {
		case "and":
			expr(e.Args[0])
			expr(e.Args[1])
		case "lit", "close":
			lit(e.Lit)
		}
	}
	lit = func(l *Lit) {
		kinds := map[string]int{} // label -> bit 1: declared with a reference, bit 2: with a literal
		var collect func(x *Lit)
		collect = func(x *Lit) {
			for _, f := range x.Fields {
				switch f.Val.Kind {
				case "ref":
					kinds[f.Label] |= 1
				case "lit", "close", "and":
					kinds[f.Label] |= 2
				}
			}
			for _, e := range x.Embeds {
				if e.Lit != nil {
					collect(e.Lit) // an embedded literal declares fields of the same struct
				}
			}
		}
		collect(l)
		for _, f := range l.Fields {
			expr(f.Val)
		}
		for _, k := range kinds {
			if k == 3 {
				bad = true
			}
		}
		for _, p := range l.Pats {
			expr(p.Val)
		}
		for _, e := range l.Embeds {
			expr(e)
		}
	}
	for _, d := range c.Defs {
		lit(d)
	}
	return bad
}

// excluded names the known finding whose root cause this case contains.
func excluded(c Case) string {
	direct := map[int]bool{}
	var collectDirect func(e *Expr)
	collectDirect = func(e *Expr) {
		switch e.Kind {
		case "ref":
			direct[e.Ref] = true
		case "and":
			collectDirect(e.Args[0])
			collectDirect(e.Args[1])
		}
	}
	collectDirect(c.Schema)
	bad := ""
	visit := func(e *Expr, w where) {
		if w.inEmbedField && (e.Kind == "ref" || e.Kind == "close") {
			// F27: closedness introduced inside a field of an embedded literal is ignored
			bad = "NoClosingInsideEmbeddedLiteralFields(F27)"
		}
		if w.inDefPattern && (e.Kind == "lit" || e.Kind == "close" || e.Kind == "ref") {
			// F72: a struct-valued pattern constraint inside a definition does not close the values it applies to
			bad = "NoStructValuedPatternInsideDefinition(F72)"
		}
		if w.inEmbed && e.Kind == "ref" && direct[e.Ref] {
			// F14: a definition that is embedded in one conjunct and referenced directly in another is
			// widened in both, in one operand order only
			bad = "NoSameDefEmbeddedAndDirect(F14)"
		}
		if w.inEmbed && e.Kind == "close" {
			// F27: closedness introduced inside an embedded literal is ignored
			bad = "NoCloseInsideEmbedding(F27)"
		}
	}
	walkExpr(c.Schema, where{}, visit)
	for _, d := range c.Defs {
		walkLit(d, where{inDef: true}, visit)
	}
	if bad == "" {
		// F82, nested form: a field declared twice with struct values, one of which embeds a
		// definition (ab: {b: 1, #D0}, ab: {a: {...}}): the conjunction happens below the top level
		hasEmbRef := func(e *Expr) bool {
			found := false
			walkExpr(e, where{}, func(x *Expr, w where) {
				if w.inEmbed && x.Kind == "ref" {
					found = true
				}
			})
			return found
		}
		var chkLit func(l *Lit)
		var chkExpr func(e *Expr)
		chkExpr = func(e *Expr) {
			if e == nil {
				return
			}
			switch e.Kind {
			case "and":
				chkExpr(e.Args[0])
				chkExpr(e.Args[1])
			case "lit", "close":
				chkLit(e.Lit)
			}
		}
		chkLit = func(l *Lit) {
			n := map[string]int{}
			emb := map[string]bool{}
			for _, f := range l.Fields {
				if f.Val.Kind != "leaf" {
					n[f.Label]++
					if hasEmbRef(f.Val) {
						emb[f.Label] = true
					}
				}
				chkExpr(f.Val)
			}
			for lb, k := range n {
				if k >= 2 && emb[lb] {
					bad = "NoNestedDataBelowConjunctionWithEmbeddedDefinition(F82)"
				}
			}
			for _, p := range l.Pats {
				chkExpr(p.Val)
			}
			for _, e := range l.Embeds {
				chkExpr(e)
			}
		}
		chkExpr(c.Schema)
		for _, d := range c.Defs {
			chkLit(d)
		}
	}
	if bad == "" && c.Schema.Kind == "and" {
		// F82: a literal that embeds a definition closes the nested structs that other conjuncts
		// contribute ({#D0} & {b: {a: int}} rejects b.b although #D0 is {...} and #D0 & {b: {a: int}}
		// accepts it). Region: a conjunction one of whose literals embeds a definition, and data with
		// a nested struct.
		embedsRef := false
		walkExpr(c.Schema, where{}, func(e *Expr, w where) {
			if (e.Kind == "lit" || e.Kind == "close") && e.Lit != nil {
				for _, x := range e.Lit.Embeds {
					if x.Kind == "ref" {
						embedsRef = true
					}
				}
			}
		})
		nested := false
		for _, f := range c.Data.Fields {
			if f.Val.Kind != "leaf" {
				nested = true
			}
		}
		if embedsRef && nested {
			bad = "NoNestedDataBelowConjunctionWithEmbeddedDefinition(F82)"
		}
	}
	return bad
}
