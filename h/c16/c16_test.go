// Package c16: the module cache never serves a partial download, whatever crashes or races.
//
// Crash points are produced without touching the code under test: the worker
// (worker/fetcher) runs the whole Cache.Fetch on one OS thread and is started
// under strace with SIGKILL injected on entry to the N-th call of one system
// call, i.e. exactly between two file-system effects.
package c16

import (
	"bufio"
	"bytes"
	"fmt"
	"os"
	"os/exec"
	"path/filepath"
	"regexp"
	"sort"
	"strings"
	"sync"
	"syscall"
	"testing"

	"cuelang.org/go/verifh/evid"
	"pgregory.net/rapid"
)

var effectSyscalls = []string{"openat", "mkdirat", "mkdir", "renameat", "renameat2", "rename", "unlinkat", "unlink", "write", "fchmodat", "chmod", "fchmod", "flock", "fsync", "ftruncate", "linkat", "symlinkat"}

type Point struct {
	Syscall string
	When    int
}

type Case struct {
	Spec   string  // module description understood by the worker
	Points []Point // crash points applied one after the other (each to a fresh run on the same cache)
	Fault  string  // registry fault of the first run instead of a crash: "", errmid, short
}

func fetcher() string {
	if p := os.Getenv("VERIF_TOOL_FETCHER"); p != "" {
		return p
	}
	return "fetcher"
}

func scratch() string {
	base := os.Getenv("VERIF_SCRATCH")
	if base == "" {
		base = os.TempDir()
	}
	d, err := os.MkdirTemp(base, "c16-")
	if err != nil {
		panic(err)
	}
	return d
}

func cleanup(dir string) {
	filepath.WalkDir(dir, func(p string, d os.DirEntry, err error) error { os.Chmod(p, 0o777); return nil })
	os.RemoveAll(dir)
}

var lineRe = regexp.MustCompile(`^(\d+)\s+([a-z0-9_]+)\(`)

// dryRun traces one clean fetch and returns, per effect syscall, the call
// numbers (as strace's when= counts them: per thread, from process start) that
// fall between the BEGIN-FETCH and END-FETCH markers of the fetching thread.
func dryRun(spec string) (map[string][2]int, error) {
	dir := scratch()
	defer cleanup(dir)
	tr := filepath.Join(dir, "trace.txt")
	cmd := exec.Command("strace", "-f", "-qq", "-o", tr, "-e", "trace="+strings.Join(effectSyscalls, ","), fetcher(), filepath.Join(dir, "cache"), "fetch", spec)
	out, err := cmd.CombinedOutput()
	if err != nil {
		return nil, fmt.Errorf("dry run failed: %v\n%s", err, out)
	}
	f, err := os.Open(tr)
	if err != nil {
		return nil, err
	}
	defer f.Close()
	counts := map[string]map[string]int{} // tid -> syscall -> count so far
	var tid string
	in := false
	res := map[string][2]int{}
	sc := bufio.NewScanner(f)
	sc.Buffer(make([]byte, 1<<20), 1<<20)
	for sc.Scan() {
		m := lineRe.FindStringSubmatch(sc.Text())
		if m == nil {
			continue
		}
		if counts[m[1]] == nil {
			counts[m[1]] = map[string]int{}
		}
		counts[m[1]][m[2]]++
		if strings.Contains(sc.Text(), "BEGIN-FETCH") {
			tid, in = m[1], true
			continue
		}
		if strings.Contains(sc.Text(), "END-FETCH") {
			in = false
			continue
		}
		if in && m[1] == tid {
			n := counts[tid][m[2]]
			r, ok := res[m[2]]
			if !ok {
				r = [2]int{n, n}
			}
			r[1] = n
			res[m[2]] = r
		}
	}
	if len(res) == 0 {
		return nil, fmt.Errorf("dry run found no effect system calls between the markers")
	}
	return res, nil
}

func nonEmpty(dir string) bool {
	n := 0
	filepath.WalkDir(dir, func(p string, d os.DirEntry, err error) error {
		if err == nil && !d.IsDir() {
			n++
		}
		return nil
	})
	return n > 0
}

func run(c Case) (res evid.Result) {
	dir := scratch()
	defer cleanup(dir)
	cache := filepath.Join(dir, "cache")
	landed := 0
	partial := false
	var history []string
	if c.Fault != "" {
		out, err := exec.Command(fetcher(), cache, "fetch", c.Spec, "1", c.Fault).CombinedOutput()
		history = append(history, fmt.Sprintf("fetch with registry fault %s: err=%v %s", c.Fault, err, lastLine(out)))
		if err != nil || bytes.Contains(out, []byte("VIOLATION")) {
			res.Fail = fmt.Sprintf("registry fault %s: %s\nspec %s", c.Fault, out, c.Spec)
			return
		}
		res.Classes = append(res.Classes, "registry-fault:"+c.Fault)
	}
	for _, p := range c.Points {
		cmd := exec.Command("strace", "-f", "-qq", "-o", "/dev/null", "-e", "trace="+p.Syscall, "-e", fmt.Sprintf("inject=%s:signal=SIGKILL:when=%d", p.Syscall, p.When), fetcher(), cache, "fetch", c.Spec)
		out, err := cmd.CombinedOutput()
		killed := false
		if ee, ok := err.(*exec.ExitError); ok {
			if ws, ok := ee.Sys().(syscall.WaitStatus); ok && (ws.Signaled() || ws.ExitStatus() == 137) {
				killed = true
			}
		}
		history = append(history, fmt.Sprintf("fetch killed on entry to %s #%d: killed=%v %s", p.Syscall, p.When, killed, lastLine(out)))
		if killed {
			landed++
			if nonEmpty(cache) {
				partial = true
			}
		} else if err != nil || bytes.Contains(out, []byte("VIOLATION")) {
			res.Fail = fmt.Sprintf("fetch under trace failed without being killed: %v\n%s\nhistory: %v", err, out, history)
			return
		}
	}
	out, err := exec.Command(fetcher(), cache, "check", c.Spec).CombinedOutput()
	history = append(history, "check+clean fetch: "+lastLine(out))
	if err != nil || bytes.Contains(out, []byte("VIOLATION")) {
		res.Fail = fmt.Sprintf("after the interrupted history the cache is wrong: %v\n%s\nspec %s history:\n  %s", err, out, c.Spec, strings.Join(history, "\n  "))
		return
	}
	// and once more: the now complete cache is served without a download
	out, err = exec.Command(fetcher(), cache, "check", c.Spec).CombinedOutput()
	if err != nil || !bytes.Contains(out, []byte("fromcache: complete")) || !bytes.Contains(out, []byte("ok blobs 0")) {
		res.Fail = fmt.Sprintf("a completed fetch is not served from the cache afterwards: %v\n%s\nhistory:\n  %s", err, out, strings.Join(history, "\n  "))
		return
	}
	evid.Count("kills_landed", landed)
	if len(c.Points) > 0 {
		res.Classes = append(res.Classes, fmt.Sprintf("crashes:%d", len(c.Points)), "syscall:"+c.Points[0].Syscall)
	}
	if partial {
		res.Classes = append(res.Classes, "left-partial-state")
	}
	res.NonTrivial = partial || c.Fault != ""
	res.Note = strings.Join(history, " | ")
	return
}

func lastLine(b []byte) string {
	ls := strings.Split(strings.TrimSpace(string(b)), "\n")
	return ls[len(ls)-1]
}

func specs() []string {
	if evid.Thorough() {
		var s []string
		for n := 1; n <= 12; n++ {
			for big := 0; big <= 2 && big <= n; big++ {
				s = append(s, fmt.Sprintf("%d:%d:v0.0.%d", n, big, n))
			}
		}
		return s
	}
	return []string{"3:0:v0.0.1", "6:1:v0.1.0-RC.1", "11:2:v0.2.0-pre"}
}

// TestCrashPoints enumerates every crash point (effect syscall, N-th call) of a
// fetch of each module, plus registry faults; sharded by index.
func TestCrashPoints(t *testing.T) {
	shard, n := evid.Shard()
	evid.Enumerate(t, evid.Check[Case]{Name: "crash-points", Run: run}, func(yield func(Case) bool) {
		i := 0
		for _, spec := range specs() {
			ranges, err := dryRun(spec)
			if err != nil {
				t.Fatalf("cannot enumerate crash points (is strace available?): %v", err)
			}
			var names []string
			for s := range ranges {
				names = append(names, s)
			}
			sort.Strings(names)
			var all []Point
			for _, s := range names {
				for k := ranges[s][0]; k <= ranges[s][1]; k++ {
					all = append(all, Point{s, k})
				}
			}
			evid.Count("crash_points_enumerated", len(all))
			for j, p := range all {
				i++
				if i%n != shard {
					continue
				}
				if !yield(Case{Spec: spec, Points: []Point{p}}) {
					return
				}
				// a second crash after the first one, at a point derived from the index
				if evid.Thorough() || j%5 == 0 {
					q := all[(j*7+3)%len(all)]
					if !yield(Case{Spec: spec, Points: []Point{p, q}}) {
						return
					}
				}
			}
			for _, f := range []string{"errmid", "short"} {
				i++
				if i%n == shard {
					if !yield(Case{Spec: spec, Fault: f}) {
						return
					}
					if !yield(Case{Spec: spec, Fault: f, Points: []Point{all[len(all)/2]}}) {
						return
					}
				}
			}
		}
	}, true)
}

// ---- concurrent fetchers ------------------------------------------------------------------------------

type ConcCase struct {
	Spec   string
	Procs  int
	Gor    int
	Delays []int   // registry latency per process (microseconds)
	Other  []bool  // process fetches another version of the module
	Kill   *Point  // optionally one process is killed at a crash point
}

func runConc(c ConcCase) (res evid.Result) {
	dir := scratch()
	defer cleanup(dir)
	cache := filepath.Join(dir, "cache")
	var wg sync.WaitGroup
	outs := make([][]byte, c.Procs)
	errs := make([]error, c.Procs)
	for i := 0; i < c.Procs; i++ {
		wg.Add(1)
		go func() {
			defer wg.Done()
			spec := c.Spec
			if i < len(c.Other) && c.Other[i] {
				// a sibling version whose name has the base version as a prefix (same module, same cache directory)
				spec = c.Spec + []string{"0", "-rc.1", "-RC.2"}[i%3]
			}
			args := []string{cache, "fetch", spec, fmt.Sprint(c.Gor)}
			cmd := exec.Command(fetcher(), args...)
			if c.Kill != nil && i == 0 {
				cmd = exec.Command("strace", append([]string{"-f", "-qq", "-o", "/dev/null", "-e", "trace=" + c.Kill.Syscall, "-e", fmt.Sprintf("inject=%s:signal=SIGKILL:when=%d", c.Kill.Syscall, c.Kill.When), fetcher()}, args...)...)
			}
			d := 0
			if i < len(c.Delays) {
				d = c.Delays[i]
			}
			cmd.Env = append(os.Environ(), fmt.Sprintf("FETCHER_DELAY_US=%d", d))
			outs[i], errs[i] = cmd.CombinedOutput()
		}()
	}
	wg.Wait()
	for i := range outs {
		if c.Kill != nil && i == 0 {
			continue // the killed process may have died
		}
		if errs[i] != nil || bytes.Contains(outs[i], []byte("VIOLATION")) || !bytes.Contains(outs[i], []byte("ok blobs")) {
			res.Fail = fmt.Sprintf("concurrent fetcher %d of %d (x%d goroutines) failed: %v\n%s", i, c.Procs, c.Gor, errs[i], outs[i])
			return
		}
	}
	out, err := exec.Command(fetcher(), cache, "check", c.Spec).CombinedOutput()
	if err != nil || bytes.Contains(out, []byte("VIOLATION")) {
		res.Fail = fmt.Sprintf("after concurrent fetches the cache is wrong: %v\n%s", err, out)
		return
	}
	res.Classes = []string{fmt.Sprintf("procs%d", c.Procs), fmt.Sprintf("gor%d", c.Gor)}
	if c.Kill != nil {
		res.Classes = append(res.Classes, "one-killed")
	}
	res.NonTrivial = c.Procs >= 2
	return
}

func TestConcurrent(t *testing.T) {
	evid.Main(t, evid.Check[ConcCase]{Name: "concurrent", Gen: func(t *rapid.T) ConcCase {
		c := ConcCase{
			Spec:  rapid.SampledFrom([]string{"3:0:v0.0.1", "6:1:v0.1.1", "9:2:v0.2.1"}).Draw(t, "spec"),
			Procs: rapid.IntRange(2, 4).Draw(t, "procs"),
			Gor:   rapid.SampledFrom([]int{1, 1, 4}).Draw(t, "gor"),
		}
		for i := 0; i < c.Procs; i++ {
			c.Delays = append(c.Delays, rapid.SampledFrom([]int{0, 0, 200, 1000, 3000, 20000, 50000}).Draw(t, "delay"))
			c.Other = append(c.Other, rapid.IntRange(0, 2).Draw(t, "other") == 0)
		}
		if rapid.IntRange(0, 2).Draw(t, "kill") == 0 {
			c.Kill = &Point{Syscall: rapid.SampledFrom([]string{"openat", "mkdirat", "write", "renameat", "fchmodat"}).Draw(t, "ksys"), When: rapid.IntRange(1, 40).Draw(t, "kwhen")}
		}
		return c
	}, Run: runConc})
}
