// Package corpus collects the CUE sources embedded in the repository (plain
// .cue files and .cue members of txtar archives) as seed inputs, and offers
// seed-deterministic token/byte-level mutations driven by rapid.
package corpus

import (
	"bytes"
	"io/fs"
	"os"
	"path/filepath"
	"sort"
	"strings"
	"sync"

	"pgregory.net/rapid"
)

type File struct {
	Name string // path, or path:member for txtar members
	Data []byte
}

var (
	once  sync.Once
	files []File
)

func repoDir() string {
	if d := os.Getenv("VERIF_REPO_DIR"); d != "" {
		return d
	}
	return "/repo"
}

// splitTxtar returns the members of a txtar archive (own minimal parser).
func splitTxtar(data []byte) []File {
	var out []File
	var cur *File
	for _, line := range bytes.SplitAfter(data, []byte("\n")) {
		l := bytes.TrimRight(line, "\r\n")
		if bytes.HasPrefix(l, []byte("-- ")) && bytes.HasSuffix(l, []byte(" --")) && len(l) > 6 {
			out = append(out, File{Name: strings.TrimSpace(string(l[3 : len(l)-3]))})
			cur = &out[len(out)-1]
			continue
		}
		if cur != nil {
			cur.Data = append(cur.Data, line...)
		}
	}
	return out
}

// Files returns every .cue source under the repository not larger than max
// bytes, sorted by name (deterministic).
func Files(max int) []File {
	once.Do(func() {
		root := repoDir()
		filepath.WalkDir(root, func(p string, d fs.DirEntry, err error) error {
			if err != nil {
				return nil
			}
			if d.IsDir() {
				if d.Name() == ".git" || d.Name() == "node_modules" {
					return filepath.SkipDir
				}
				return nil
			}
			rel, _ := filepath.Rel(root, p)
			switch {
			case strings.HasSuffix(p, ".cue"):
				if b, err := os.ReadFile(p); err == nil {
					files = append(files, File{rel, b})
				}
			case strings.HasSuffix(p, ".txtar"):
				b, err := os.ReadFile(p)
				if err != nil {
					return nil
				}
				for _, m := range splitTxtar(b) {
					if strings.HasSuffix(m.Name, ".cue") {
						files = append(files, File{rel + ":" + m.Name, m.Data})
					}
				}
			}
			return nil
		})
		sort.Slice(files, func(i, j int) bool { return files[i].Name < files[j].Name })
	})
	var out []File
	for _, f := range files {
		if len(f.Data) <= max {
			out = append(out, f)
		}
	}
	return out
}

var punct = []string{"{", "}", "[", "]", "(", ")", "\"", ",", ":", "'", "#", "\\", "\n", "&", "|", "*", "!", "?", "=", "_", ".", "...", "\"\"\"", "'''", "\\(", "<", ">", "-", "/", "//", "@", "$", "0", " ", "\t", "\r", "\x00", "\xff", "\xef\xbb\xbf"}

// Mutate applies n random edits to src: delete a short span, insert
// punctuation, duplicate a span, splice a fragment of another corpus file,
// swap two spans, truncate.
func Mutate(t *rapid.T, src []byte, n int, pool []File) []byte {
	m := append([]byte{}, src...)
	for j := 0; j < n; j++ {
		if len(m) < 2 {
			break
		}
		i := rapid.IntRange(0, len(m)-1).Draw(t, "mpos")
		switch rapid.IntRange(0, 5).Draw(t, "mkind") {
		case 0:
			e := min(len(m), i+1+rapid.IntRange(0, 5).Draw(t, "mlen"))
			m = append(m[:i], m[e:]...)
		case 1:
			p := rapid.SampledFrom(punct).Draw(t, "mpunct")
			m = append(m[:i], append([]byte(p), m[i:]...)...)
		case 2:
			e := min(len(m), i+1+rapid.IntRange(0, 12).Draw(t, "mlen"))
			m = append(m[:e], append(append([]byte{}, m[i:e]...), m[e:]...)...)
		case 3:
			if len(pool) > 0 {
				o := pool[rapid.IntRange(0, len(pool)-1).Draw(t, "mfile")].Data
				if len(o) > 10 {
					k := rapid.IntRange(0, len(o)-6).Draw(t, "moff")
					l := 5 + rapid.IntRange(0, min(40, len(o)-k-5)).Draw(t, "mlen")
					m = append(m[:i], append(append([]byte{}, o[k:k+l]...), m[i:]...)...)
				}
			}
		case 4:
			m = m[:i]
		case 5:
			j2 := rapid.IntRange(0, len(m)-1).Draw(t, "mpos2")
			m[i], m[j2] = m[j2], m[i]
		}
	}
	return m
}
