// Package c04: disjunctions and defaults follow the value/default-pair rules of the spec.
package c04

import (
	"fmt"
	"os"
	"sort"
	"strings"
	"testing"

	"cuelang.org/go/cue"
	"cuelang.org/go/cue/cuecontext"
	"cuelang.org/go/verifh/evid"
	"pgregory.net/rapid"
)

var excl = os.Getenv("VERIF_MODE") != "replay"

// probe atoms: dense around every bound constant (halves), both number kinds, other kinds, small structs
var probes = []string{"-1", "0", "1", "2", "3", "4", "0.5", "1.5", "2.5", "3.5", "1.0", "2.0", "3.0", `"a"`, `"b"`, "true", "false", "null", "{a: 1}", "{b: 2}", "{a: 1, b: 2}", "{a: 2}", "{}"}

type leaf struct {
	src  string
	ext  uint32
	atom bool
}

func bit(names ...string) uint32 {
	var b uint32
	for _, n := range names {
		found := false
		for i, p := range probes {
			if p == n {
				b |= 1 << i
				found = true
			}
		}
		if !found {
			panic("unknown probe " + n)
		}
	}
	return b
}

var ints = []string{"-1", "0", "1", "2", "3", "4"}
var nums = []string{"-1", "0", "1", "2", "3", "4", "0.5", "1.5", "2.5", "3.5", "1.0", "2.0", "3.0"}
var structs = []string{"{a: 1}", "{b: 2}", "{a: 1, b: 2}", "{a: 2}", "{}"}

func sel(from []string, ok func(v float64) bool) []string {
	val := map[string]float64{"-1": -1, "0": 0, "1": 1, "2": 2, "3": 3, "4": 4, "0.5": .5, "1.5": 1.5, "2.5": 2.5, "3.5": 3.5, "1.0": 1, "2.0": 2, "3.0": 3}
	var out []string
	for _, n := range from {
		if ok(val[n]) {
			out = append(out, n)
		}
	}
	return out
}

var leaves = []leaf{
	{"1", bit("1"), true}, {"2", bit("2"), true}, {"3", bit("3"), true}, {"2.0", bit("2.0"), true},
	{`"a"`, bit(`"a"`), true}, {`"b"`, bit(`"b"`), true}, {"true", bit("true"), true}, {"null", bit("null"), true},
	{"int", bit(ints...), false},
	{"number", bit(nums...), false},
	{"string", bit(`"a"`, `"b"`), false},
	{"bool", bit("true", "false"), false},
	{"_", 1<<uint(len(probes)) - 1, false},
	{">=2", bit(sel(nums, func(v float64) bool { return v >= 2 })...), false},
	{"<3", bit(sel(nums, func(v float64) bool { return v < 3 })...), false},
	{">1", bit(sel(nums, func(v float64) bool { return v > 1 })...), false},
	{"!=2", bit(sel(nums, func(v float64) bool { return v != 2 })...), false},
	{"<=2", bit(sel(nums, func(v float64) bool { return v <= 2 })...), false},
	// structs are open: a probe struct is accepted when every shared field unifies
	{"{a: 1}", bit("{a: 1}", "{b: 2}", "{a: 1, b: 2}", "{}"), false},
	{"{b: 2}", bit(structs...), false},
	{"{a: int}", bit(structs...), false},
	{"{a: 1, b: 2}", bit("{a: 1}", "{b: 2}", "{a: 1, b: 2}", "{}"), false},
	// a struct that conflicts with {a: 1}, and one whose only declaration is an optional field: it
	// constrains nothing the probes have, but keeps product terms from being finalized early
	{"{a: 2}", bit("{a: 2}", "{b: 2}", "{}"), false},
	{"{z?: int}", bit(structs...), false},
}

// field constraints of the struct leaves: a: 0 none, 1 int, 2 the atom 1; b: 0 none, 2 the atom 2
// (a: 3 the atom 2)
// z: 1 = carries the optional constraint z?: int (a different value from the same struct without it)
var structShape = map[string][3]int{"{a: 1}": {2, 0, 0}, "{b: 2}": {0, 2, 0}, "{a: int}": {1, 0, 0}, "{a: 1, b: 2}": {2, 2, 0}, "{a: 2}": {3, 0, 0}, "{z?: int}": {0, 0, 1}}

func leafBySrc(s string) *leaf {
	for i := range leaves {
		if leaves[i].src == s {
			return &leaves[i]
		}
	}
	panic("unknown leaf " + s)
}

type E struct {
	Op    string // leaf & |
	Leaf  string
	Args  []*E
	Marks []bool
}

func (e *E) String() string {
	switch e.Op {
	case "leaf":
		return e.Leaf
	case "&":
		return "(" + e.Args[0].String() + " & " + e.Args[1].String() + ")"
	}
	var s []string
	for i, a := range e.Args {
		x := a.String()
		if e.Marks[i] {
			x = "*" + x
		}
		s = append(s, x)
	}
	return "(" + strings.Join(s, " | ") + ")"
}

// ---- model: value/default pairs with product terms -----------------------------------------

type term struct {
	ext    uint32
	atom   bool
	late   bool   // bottom, but only found out after the cross product (see lateBottom); kept when keepLate
	st     bool   // a struct
	sa, sb, sz int // its field constraints
	leaves []string // the leaves whose conjunction this term is
}

func max(a, b int) int {
	if a > b {
		return a
	}
	return b
}

// key identifies the value a term denotes as far as the model can tell
func (t term) key() string {
	if t.st {
		return fmt.Sprintf("S%d%d%d", t.sa, t.sb, t.sz)
	}
	return fmt.Sprintf("%x", t.ext)
}

type pair struct {
	v, d []term
	hasD bool
}

var ctx = cuecontext.New()
var bottomCache = map[string]bool{}
var nctx int

// bottom decides whether a conjunction of leaves is bottom by asking the evaluator about the
// disjunction-free conjunction (a C03-checked behaviour): the probe alphabet alone cannot tell an
// empty set that the evaluator legitimately does not detect from a detected one.
func bottom(ls []string) bool {
	s := append([]string{}, ls...)
	sort.Strings(s)
	key := strings.Join(s, " & ")
	if b, ok := bottomCache[key]; ok {
		return b
	}
	nctx++
	if nctx%2000 == 0 {
		ctx = cuecontext.New()
	}
	v := ctx.CompileString("x: " + key).LookupPath(cue.ParsePath("x"))
	b := v.Err() != nil
	bottomCache[key] = b
	return b
}

func and(a, b term) term {
	return term{ext: a.ext & b.ext, atom: a.atom || b.atom, late: a.late || b.late, st: a.st || b.st, sa: max(a.sa, b.sa), sb: max(a.sb, b.sb), sz: max(a.sz, b.sz),
		leaves: append(append([]string{}, a.leaves...), b.leaves...)}
}

func cross(a, b []term) []term {
	var r []term
	for _, x := range a {
		for _, y := range b {
			t := and(x, y)
			if !bottom(t.leaves) {
				r = append(r, t)
			} else if lateBottom(t.leaves) {
				sawLate = true
				if keepLate {
					t.late, t.ext = true, 0
					r = append(r, t)
				}
			}
		}
	}
	return r
}

// eval computes the pair; sticky selects the literal reading of U2 (a default that became bottom
// stays "the default") versus the prose reading (eliminated marks fall back to the unmarked).
func eval(e *E, sticky bool) pair {
	switch e.Op {
	case "leaf":
		l := leafBySrc(e.Leaf)
		sh, st := structShape[l.src]
		return pair{v: []term{{ext: l.ext, atom: l.atom, st: st, sa: sh[0], sb: sh[1], sz: sh[2], leaves: []string{l.src}}}}
	case "&":
		a, b := eval(e.Args[0], sticky), eval(e.Args[1], sticky)
		p := pair{v: cross(a.v, b.v)}
		switch {
		case a.hasD && b.hasD:
			p.d, p.hasD = cross(a.d, b.d), true
			if !sticky && len(p.d) == 0 {
				// "if all the marked disjuncts of a marked disjunction are eliminated, the remaining
				// unmarked disjuncts are considered as if they originated from an unmarked disjunction"
				ad, bd := cross(a.d, b.v), cross(a.v, b.d)
				switch {
				case len(ad) == 0 && len(bd) > 0:
					p.d = bd
				case len(bd) == 0 && len(ad) > 0:
					p.d = ad
				case len(ad) == 0 && len(bd) == 0:
					p.hasD = false
				}
				// otherwise both defaults are alive but incompatible: there is no default, and
				// that stays so (the spec's example (*1|2) & (1|*2))
				return p
			}
		case a.hasD:
			p.d, p.hasD = cross(a.d, b.v), true
		case b.hasD:
			p.d, p.hasD = cross(a.v, b.d), true
		}
		if !sticky && len(p.d) == 0 {
			p.hasD = false
		}
		return p
	}
	var p pair
	marked := false
	for _, m := range e.Marks {
		marked = marked || m
	}
	for i, a := range e.Args {
		x := eval(a, sticky)
		if marked {
			if e.Marks[i] {
				if !x.hasD {
					x.d, x.hasD = x.v, true // M1
				}
			} else {
				x.d, x.hasD = nil, false // M0
			}
		}
		p.v = append(p.v, x.v...)
		if x.hasD {
			p.d = append(p.d, x.d...)
			p.hasD = true
		}
	}
	if !sticky && len(p.d) == 0 {
		p.hasD = false
	}
	return p
}

// ---- second model: tagged disjunctive normal form (global prose reading) ---------------------

type tterm struct {
	term
	tags map[int]bool // marked-disjunction site -> this term took a marked disjunct there
	idx  map[int]int  // marked-disjunction site -> which disjunct
}

type siteInfo struct {
	n      int  // number of disjuncts
	nested bool // lies inside a disjunct of an (unmarked) disjunction
}

var sites map[int]siteInfo

func evalT(e *E, site *int, under bool) []tterm {
	switch e.Op {
	case "leaf":
		l := leafBySrc(e.Leaf)
		sh, st := structShape[l.src]
		return []tterm{{term{ext: l.ext, atom: l.atom, st: st, sa: sh[0], sb: sh[1], sz: sh[2], leaves: []string{l.src}}, map[int]bool{}, map[int]int{}}}
	case "&":
		a, b := evalT(e.Args[0], site, under), evalT(e.Args[1], site, under)
		var r []tterm
		for _, x := range a {
			for _, y := range b {
				t := and(x.term, y.term)
				if bottom(t.leaves) {
					if !lateBottom(t.leaves) || !keepLate {
						continue
					}
					t.late, t.ext = true, 0
				}
				tags := map[int]bool{}
				for k, v := range x.tags {
					tags[k] = v
				}
				for k, v := range y.tags {
					tags[k] = v
				}
				idx := map[int]int{}
				for k, v := range x.idx {
					idx[k] = v
				}
				for k, v := range y.idx {
					idx[k] = v
				}
				r = append(r, tterm{t, tags, idx})
			}
		}
		return r
	}
	marked := false
	for _, m := range e.Marks {
		marked = marked || m
	}
	id := -1
	if marked {
		*site++
		id = *site
		sites[id] = siteInfo{len(e.Args), under}
	}
	var r []tterm
	for i, a := range e.Args {
		for _, x := range evalT(a, site, true) {
			if marked {
				x.tags[id] = e.Marks[i]
				x.idx[id] = i
			}
			r = append(r, x)
		}
	}
	return r
}

// pairT: the value is all surviving terms; a site whose marked disjuncts all died counts as unmarked;
// the default is the terms that took a marked disjunct at every live site.
func pairT(e *E) (pair, bool) {
	n := 0
	sites = map[int]siteInfo{}
	ts := evalT(e, &n, false)
	// known finding F5: a marked disjunction inside a disjunct of an unmarked disjunction
	f5 := false
	for _, si := range sites {
		if si.nested {
			f5 = true
		}
	}
	live := map[int]bool{}
	for _, t := range ts {
		for k, m := range t.tags {
			if m {
				live[k] = true
			}
		}
	}
	var p pair
	for _, t := range ts {
		p.v = append(p.v, t.term)
		ok, some := true, false
		for k := range live {
			if m, has := t.tags[k]; has {
				ok = ok && m
				some = true
			}
		}
		ok = ok && some // D1: a term that took part in no live marked disjunction is not a default
		if ok {
			p.d = append(p.d, t.term)
			p.hasD = true
		}
	}
	conflict = len(live) >= 2 && !p.hasD
	return p, f5
}

// conflict: the last pairT saw two or more live marked disjunctions and no term that takes a marked
// disjunct in all of them (the spec's (*1|2) & (1|*2): no default)
var conflict bool

func union(ts []term) uint32 {
	var u uint32
	for _, t := range ts {
		u |= t.ext
	}
	return u
}

// resolve: extension of the resolved default and whether it must be concrete (1), must not be (0), or is unknown (-1).
func alive(ts []term) []term {
	var r []term
	for _, t := range ts {
		if !t.late {
			r = append(r, t)
		}
	}
	return r
}

func resolve(p pair) (uint32, int) {
	ts := alive(p.v)
	if d := alive(p.d); p.hasD && len(d) > 0 {
		ts = d
	}
	if len(ts) == 0 {
		return 0, -1
	}
	same, allAtom, anyAtom := true, true, false
	for _, t := range ts {
		if t.key() != ts[0].key() {
			same = false
		}
		allAtom = allAtom && t.atom
		anyAtom = anyAtom || t.atom
	}
	u := union(ts)
	if !same {
		return u, 0 // several distinct values remain: no unique default
	}
	t0 := ts[0]
	switch {
	case t0.st:
		if t0.sa == 1 {
			return u, 0
		}
		return u, 1
	case allAtom:
		return u, 1
	case t0.ext&(t0.ext-1) != 0:
		return u, 0
	}
	// one probe left by bounds alone (or by an atom in only some of the terms): whether the evaluator
	// reduces that to the atom is C03's business
	return u, -1
}

var (
	runCtx    *cue.Context
	runProbes []cue.Value
	runN      int
)

// context returns a context shared by up to 300 consecutive cases, with the probes compiled in it.
func context() *cue.Context {
	if runCtx == nil || runN >= 300 {
		runCtx, runN, runProbes = cuecontext.New(), 0, nil
		for _, p := range probes {
			runProbes = append(runProbes, runCtx.CompileString(p))
		}
	}
	runN++
	return runCtx
}

func accept(c *cue.Context, v cue.Value) uint32 {
	var b uint32
	for i := range probes {
		a := runProbes[i]
		if v.Unify(a).Validate() == nil {
			b |= 1 << i
		}
	}
	return b
}

type Case struct {
	Expr *E
}

var boundLeaf = map[string]bool{">=2": true, "<3": true, ">1": true, "!=2": true, "<=2": true}

// lateBottom: a product term that is bottom only because a bound rejects an atom. The evaluator
// notices such a conflict after the cross product has settled the default modes (known finding F75).
func lateBottom(ls []string) bool {
	if !bottom(ls) {
		return false
	}
	var rest []string
	for _, l := range ls {
		if !boundLeaf[l] {
			rest = append(rest, l)
		}
	}
	return len(rest) == len(ls) || len(rest) == 0 || !bottom(rest)
}

var sawLate, keepLate bool

// exclusion names the known finding whose region a marked expression lies in, if any.
func exclusion(e *E) string {
	marked := false
	res := ""
	ndisj := 0
	var walk func(e *E, underMarked, underUnmarked bool)
	walk = func(e *E, underMarked, underUnmarked bool) {
		if e.Op == "|" {
			ndisj++
			m := false
			for _, x := range e.Marks {
				m = m || x
			}
			marked = marked || m
			switch {
			case underMarked:
				res = "F73-disjunction-inside-marked-disjunction"
			case underUnmarked && m && res == "":
				res = "F5-marked-disjunction-inside-unmarked-disjunction"
			case underUnmarked && res == "":
				res = "F74-disjunction-inside-unmarked-disjunction-of-marked-expression"
			}
			for _, a := range e.Args {
				walk(a, underMarked || m, underUnmarked || !m)
			}
			return
		}
		for _, a := range e.Args {
			walk(a, underMarked, underUnmarked)
		}
	}
	walk(e, false, false)
	if ndisj >= 2 && strings.Contains(e.String(), "{z?: int}") {
		// known finding F77: product terms that carry an optional field are compared before their
		// fields are evaluated, so distinct struct disjuncts are merged (a value silently chosen, or
		// a spurious conflict)
		return "F77-struct-disjunction-product-with-optional-field"
	}
	if !marked {
		return "" // without marks there is no default bookkeeping to go wrong
	}
	if pairT(e); res == "" && conflict && ndisj >= 3 {
		// known finding F76: with a third disjunction in the product the evaluator forgets the conflict
		res = "F76-conflicting-defaults-in-product-of-three-or-more-disjunctions"
	}
	if res == "" && sawLate {
		// does it matter that some product terms die late? compare every reading with those terms
		// kept until the end against the proper one
		type rd struct {
			e uint32
			c int
		}
		readings := func() [3]rd {
			var r [3]rd
			pg, _ := pairT(e)
			for i, p := range []pair{eval(e, true), pg, pg} {
				r[i].e, r[i].c = resolve(p)
				if r[i].c == 0 {
					r[i].e = 0
				}
			}
			return r
		}
		keepLate = false
		a := readings()
		keepLate = true
		b := readings()
		keepLate = false
		if a != b {
			res = "F75-bound-conflict-eliminated-after-cross-product"
		}
	}
	return res
}

// nestedInMarked: some disjunct of a marked disjunction contains a disjunction (known finding F73)
func nestedInMarked(e *E, under bool) bool {
	if e.Op == "|" {
		if under {
			return true
		}
		for _, m := range e.Marks {
			under = under || m
		}
	}
	for _, a := range e.Args {
		if nestedInMarked(a, under) {
			return true
		}
	}
	return false
}

func run(c Case) (res evid.Result) {
	defer func() {
		if r := recover(); r != nil {
			res.Fail = fmt.Sprintf("panic: %v on %s", r, c.Expr)
		}
		res.Fail = strings.Join(strings.Fields(res.Fail), " ")
		res.Key, res.Note = c.Expr.String(), c.Expr.String()
	}()
	src := c.Expr.String()
	sawLate = false
	pG, _ := pairT(c.Expr)
	pL, pT := eval(c.Expr, true), eval(c.Expr, false)
	if x := exclusion(c.Expr); excl && x != "" {
		return evid.Result{Excluded: x, Skip: true}
	}
	cx := context()
	v := cx.CompileString("x: " + src).LookupPath(cue.ParsePath("x"))
	gotV := accept(cx, v)
	wantV := union(pL.v)
	marked, both := false, false
	var walk func(e *E) bool
	walk = func(e *E) bool {
		d := e.Op == "|"
		if d {
			for _, m := range e.Marks {
				marked = marked || m
			}
		}
		var sub []bool
		for _, a := range e.Args {
			sub = append(sub, walk(a))
		}
		if e.Op == "&" && sub[0] && sub[1] {
			both = true
		}
		for _, s := range sub {
			d = d || s
		}
		return d
	}
	walk(c.Expr)
	res.NonTrivial = marked && both
	if v.Err() != nil && wantV == 0 {
		res.Classes = []string{"bottom"}
		return
	}
	// (1) acceptance: the set of probe atoms/structs the value accepts is the union over the product terms
	if gotV != wantV {
		res.Fail = fmt.Sprintf("%s accepts %s, the spec's value set is %s (value %v)", src, names(gotV), names(wantV), v)
		return
	}
	// (3) duplicates and failed disjuncts never change the outcome
	dup := cx.CompileString("x: (" + src + ") | (" + src + ")").LookupPath(cue.ParsePath("x"))
	if g := accept(cx, dup); g != gotV {
		res.Fail = fmt.Sprintf("e | e accepts %s but e = %s accepts %s", names(g), src, names(gotV))
		return
	}
	withBottom := cx.CompileString("x: (" + src + ") | (1 & 2)").LookupPath(cue.ParsePath("x"))
	if g := accept(cx, withBottom); g != gotV {
		res.Fail = fmt.Sprintf("e | _|_ accepts %s but e = %s accepts %s", names(g), src, names(gotV))
		return
	}
	// (2) default
	d, _ := v.Default()
	dd := cx.CompileString("x: " + fmt.Sprint(d)).LookupPath(cue.ParsePath("x"))
	if dd.Err() != nil {
		res.Classes = []string{"default-not-reparsable"}
		return
	}
	gotD := accept(cx, dd)
	gotC := d.IsConcrete() && v.Validate(cue.Concrete(true)) == nil
	// the evaluator must agree with the literal rewrite rules (U2 keeps an eliminated default), or with
	// the spec's prose about eliminated marks applied over the whole product (tagged normal form)
	type reading struct {
		name string
		ext  uint32
		conc int
	}
	var rs []reading
	for _, x := range []struct {
		n string
		p pair
	}{{"literal", pL}, {"global", pG}} {
		e, cc := resolve(x.p)
		rs = append(rs, reading{x.n, e, cc})
	}
	ok := false
	desc := ""
	for _, r := range rs {
		switch r.conc {
		case 0: // no unique default: must be an incomplete error, never a silently chosen value
			ok = ok || !gotC
		case 1:
			ok = ok || (gotC && gotD == r.ext)
		default:
			ok = ok || gotD == r.ext
		}
		desc += fmt.Sprintf(" %s:%s/%d", r.name, names(r.ext), r.conc)
	}
	_ = pT
	if rs[0].conc != rs[1].conc || (rs[0].conc != 0 && rs[0].ext != rs[1].ext) {
		res.Classes = append(res.Classes, "spec-readings-differ")
	}
	for _, r := range rs {
		if r.conc == 1 {
			res.Classes = append(res.Classes, "unique-default")
			break
		}
	}
	if !ok {
		res.Fail = fmt.Sprintf("%s: resolves to %v (concrete=%v, accepts %s); the spec's pair gives%s (1 = a unique concrete default, 0 = ambiguous/incomplete); value %v", src, d, gotC, names(gotD), desc, v)
		return
	}
	if !gotC && v.Validate(cue.Concrete(true)) == nil {
		res.Fail = fmt.Sprintf("%s: Validate(Concrete) succeeds although the default %v is not a single concrete value", src, d)
		return
	}
	if marked {
		res.Classes = append(res.Classes, "marked")
	} else {
		res.Classes = append(res.Classes, "unmarked")
	}
	return
}

func names(b uint32) string {
	var s []string
	for i, p := range probes {
		if b&(1<<i) != 0 {
			s = append(s, p)
		}
	}
	return "{" + strings.Join(s, ", ") + "}"
}

var pool []string

var pools = [][]string{
	nil, // all leaves
	{"1", "2", "3", "2.0", "int", "number", "_", ">=2", "<3", ">1", "!=2", "<=2"},
	{"1", "2", "3", "int", ">1", "<3", "_"},
	{"{a: 1}", "{b: 2}", "{a: int}", "{a: 1, b: 2}", "_", "1", "int"},
	{"1", "2", "3", "2.0", "int", "number", "_", `"a"`, "string"}, // no bounds: conflicts are found at once
	{"1", "2", "int", "_"}, // few leaves: duplicate disjuncts after unification are the rule
	{`"a"`, `"b"`, "string", "1", "int"},
	{"1", "2", "int", ">1", "<3"},
	{"{a: 1}", "{a: 2}", "{z?: int}", "{a: int}", "{b: 2}"}, // structs only: conflicting, and with an optional field
}

func genLeaf(t *rapid.T) *E {
	if pool == nil {
		return &E{Op: "leaf", Leaf: leaves[rapid.IntRange(0, len(leaves)-1).Draw(t, "leaf")].src}
	}
	return &E{Op: "leaf", Leaf: rapid.SampledFrom(pool).Draw(t, "leaf")}
}

func genCase(t *rapid.T) Case {
	pool = pools[rapid.SampledFrom([]int{0, 1, 2, 3, 4, 5, 5, 6, 6, 7, 8, 8}).Draw(t, "pool")]
	switch rapid.IntRange(0, 9).Draw(t, "shape") {
	case 0, 1: // no marks, free nesting
		return Case{genE(t, 3, false)}
	case 2: // free nesting with marks: mostly inside the regions of known findings (counted as excluded)
		return Case{genE(t, 3, true)}
	}
	// a product of two to four flat disjunctions (disjuncts are leaves or conjunctions of leaves),
	// each marked or not: the shape the default bookkeeping is about
	n := rapid.IntRange(2, 4).Draw(t, "operands")
	var e *E
	for i := 0; i < n; i++ {
		var x *E
		if rapid.IntRange(0, 4).Draw(t, "plain") == 0 {
			x = genConj(t, 1)
		} else {
			w := rapid.IntRange(2, 3).Draw(t, "width")
			x = &E{Op: "|"}
			marked := rapid.IntRange(0, 3).Draw(t, "marked") != 0
			for j := 0; j < w; j++ {
				x.Args = append(x.Args, genConj(t, 1))
				x.Marks = append(x.Marks, marked && rapid.Bool().Draw(t, "mark"))
			}
		}
		if e == nil {
			e = x
		} else if rapid.Bool().Draw(t, "left") {
			e = &E{Op: "&", Args: []*E{e, x}}
		} else {
			e = &E{Op: "&", Args: []*E{x, e}}
		}
	}
	return Case{e}
}

func genE(t *rapid.T, depth int, allowMark bool) *E {
	if depth == 0 || rapid.IntRange(0, 3).Draw(t, "leafq") == 0 {
		return genLeaf(t)
	}
	if rapid.Bool().Draw(t, "and") {
		return &E{Op: "&", Args: []*E{genE(t, depth-1, allowMark), genE(t, depth-1, allowMark)}}
	}
	n := rapid.IntRange(2, 3).Draw(t, "n")
	e := &E{Op: "|"}
	marked := allowMark && rapid.IntRange(0, 3).Draw(t, "marked") != 0
	for i := 0; i < n; i++ {
		e.Marks = append(e.Marks, marked && rapid.Bool().Draw(t, "mark"))
	}
	marked = false
	for _, m := range e.Marks {
		marked = marked || m
	}
	if marked && rapid.IntRange(0, 9).Draw(t, "flat") != 0 {
		// mostly: the disjuncts of a marked disjunction contain no further disjunction (F73 region otherwise)
		for i := 0; i < n; i++ {
			e.Args = append(e.Args, genConj(t, depth-1))
		}
		return e
	}
	for i := 0; i < n; i++ {
		// marks are never nested inside the disjuncts of a marked disjunction (the documented
		// deviation the property excludes); under an unmarked one they are (rules D1, D2)
		e.Args = append(e.Args, genE(t, depth-1, allowMark && !marked && rapid.IntRange(0, 9).Draw(t, "nestmark") == 0))
	}
	return e
}

// genConj: leaves and conjunctions of leaves only
func genConj(t *rapid.T, depth int) *E {
	if depth == 0 || rapid.IntRange(0, 2).Draw(t, "leafq") != 0 {
		return genLeaf(t)
	}
	return &E{Op: "&", Args: []*E{genConj(t, depth-1), genConj(t, depth-1)}}
}

func TestDisjunction(t *testing.T) {
	evid.Main(t, evid.Check[Case]{Name: "disjunction", Gen: genCase, Run: run})
}

var enumLeaves = []string{"1", "2", "2.0", `"a"`, "int", "number", ">1", "<=2", "{a: 1}", "{a: int}", "_"}

func lf(s string) *E { return &E{Op: "leaf", Leaf: s} }

// TestEnum: every (m x | m y) & (m p | m q) over enumLeaves with every marking, and every
// (m x | m y) & r & (m p | m q) over a smaller set.
func TestEnum(t *testing.T) {
	shard, n := evid.Shard()
	stride := 1
	if !evid.Thorough() {
		stride = 23 // quick: a fixed 1/23 sample of the enumeration
	}
	evid.Enumerate(t, evid.Check[Case]{Name: "enum", Run: run}, func(yield func(Case) bool) {
		i := 0
		emit := func(e *E) bool {
			i++
			if i%n != shard || (i/n)%stride != 0 {
				return true
			}
			return yield(Case{e})
		}
		L := enumLeaves
		for _, x := range L {
			for _, y := range L {
				for _, p := range L {
					for _, q := range L {
						for m := 1; m < 16; m++ {
							e := &E{Op: "&", Args: []*E{
								{Op: "|", Args: []*E{lf(x), lf(y)}, Marks: []bool{m&1 != 0, m&2 != 0}},
								{Op: "|", Args: []*E{lf(p), lf(q)}, Marks: []bool{m&4 != 0, m&8 != 0}}}}
							if !emit(e) {
								return
							}
						}
					}
				}
			}
		}
		S := []string{"1", "2", "2.0", "int", ">1", "{a: 1}", "_"}
		for _, x := range S {
			for _, y := range S {
				for _, r := range S {
					for _, p := range S {
						for _, q := range S {
							for m := 1; m < 16; m++ {
								e := &E{Op: "&", Args: []*E{{Op: "&", Args: []*E{
									{Op: "|", Args: []*E{lf(x), lf(y)}, Marks: []bool{m&1 != 0, m&2 != 0}}, lf(r)}},
									{Op: "|", Args: []*E{lf(p), lf(q)}, Marks: []bool{m&4 != 0, m&8 != 0}}}}
								if !emit(e) {
									return
								}
							}
						}
					}
				}
			}
		}
	}, evid.Thorough())
}
