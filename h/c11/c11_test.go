// Package c11: YAML output reads back as the same data; JSON fed to the YAML
// decoder means JSON.
package c11

import (
	"bytes"
	gojson "encoding/json"
	"fmt"
	"os"
	"strings"
	"testing"
	"unicode/utf8"

	"cuelang.org/go/cue"
	"cuelang.org/go/cue/cuecontext"
	cuejson "cuelang.org/go/encoding/json"
	"cuelang.org/go/encoding/yaml"
	"cuelang.org/go/verifh/dgen"
	"cuelang.org/go/verifh/evid"
	"pgregory.net/rapid"
)

var excl = os.Getenv("VERIF_MODE") != "replay"

var ctx = cuecontext.New()
var ncases int

func fresh() *cue.Context {
	ncases++
	if ncases%1000 == 0 {
		ctx = cuecontext.New()
	}
	return ctx
}

type RTCase struct {
	Tree *dgen.Node
	Via  string // encode | builtin | stream
}

func hostile(s string) bool {
	if s == "" || s != strings.TrimSpace(s) {
		return true
	}
	for _, h := range dgen.YAMLHostile {
		if s == h {
			return true
		}
	}
	for _, r := range s {
		if r < 0x20 || r == 0x7f || r == 0x85 || r == 0xa0 || r == 0x2028 || r == 0x2029 || r == 0xfeff {
			return true
		}
	}
	return false
}

// exclusion predicates, each tied to one known finding
func excludedString(s string, isKey bool) string {
	if !excl {
		return ""
	}
	return knownBad(s, isKey)
}

func runRT(c RTCase) (res evid.Result) {
	defer func() {
		if r := recover(); r != nil {
			res.Fail = fmt.Sprintf("panic: %v\n%s", r, c.Tree.CUE())
		}
	}()
	res.Classes = []string{c.Via}
	ex := ""
	nt := false
	c.Tree.Walk(func(x *dgen.Node, isKey bool) {
		if x.K == "string" {
			if e := excludedString(x.S, isKey); e != "" && ex == "" {
				ex = e
			}
			if hostile(x.S) {
				nt = true
			}
		}
	})
	if ex != "" {
		res.Skip, res.Excluded = true, ex
		return
	}
	cx := fresh()
	v := cx.CompileString("x: " + c.Tree.CUE()).LookupPath(cue.ParsePath("x"))
	if err := v.Validate(cue.Concrete(true)); err != nil {
		res.Fail = fmt.Sprintf("ground-truth value does not evaluate: %v\n%s", err, c.Tree.CUE())
		return
	}
	var text []byte
	var err error
	switch c.Via {
	case "encode":
		text, err = yaml.Encode(v)
	case "builtin":
		bv := cx.CompileString("import \"encoding/yaml\"\nx: _\ny: yaml.Marshal(x)", cue.Filename("b.cue")).FillPath(cue.ParsePath("x"), v).LookupPath(cue.ParsePath("y"))
		var s string
		s, err = bv.String()
		text = []byte(s)
	case "stream":
		l := cx.CompileString("x: [" + c.Tree.CUE() + ", " + c.Tree.CUE() + "]").LookupPath(cue.ParsePath("x"))
		it, _ := l.List()
		text, err = yaml.EncodeStream(it)
	}
	if err != nil {
		res.Fail = fmt.Sprintf("YAML encoding (%s) failed: %v\n%s", c.Via, err, c.Tree.CUE())
		return
	}
	var back cue.Value
	if c.Via == "stream" {
		d := yaml.NewDecoder("x.yaml", bytes.NewReader(text))
		n := 0
		for {
			e, err := d.Extract()
			if err != nil {
				break
			}
			n++
			back = cx.BuildExpr(e)
			got, err := dgen.FromCUE(back)
			if err != nil {
				res.Fail = fmt.Sprintf("document %d of stream %q of %s: %v", n, text, c.Tree.CUE(), err)
				return
			}
			if d := dgen.Diff(c.Tree, got, true, true); d != "" {
				res.Fail = fmt.Sprintf("document %d of stream %q of %s reads back differently: %s", n, text, c.Tree.CUE(), d)
				return
			}
		}
		if n != 2 {
			res.Fail = fmt.Sprintf("stream of 2 documents %q reads back as %d documents (value %s)", text, n, c.Tree.CUE())
			return
		}
	} else {
		f, err := yaml.Extract("x.yaml", text)
		if err != nil {
			res.Fail = fmt.Sprintf("yaml.Extract rejects the encoder's own output %q (value %s): %v", text, c.Tree.CUE(), err)
			return
		}
		back = cx.BuildFile(f)
		if err := back.Validate(cue.Concrete(true)); err != nil {
			res.Fail = fmt.Sprintf("decoded YAML %q (value %s) is not concrete data: %v", text, c.Tree.CUE(), err)
			return
		}
		got, err := dgen.FromCUE(back)
		if err != nil {
			res.Fail = fmt.Sprintf("decoded YAML %q of %s: %v", text, c.Tree.CUE(), err)
			return
		}
		if d := dgen.Diff(c.Tree, got, true, true); d != "" {
			res.Fail = fmt.Sprintf("YAML %q of %s reads back differently: %s", text, c.Tree.CUE(), d)
			return
		}
		if c.Via == "encode" {
			// the builtin decoder too
			bv := cx.CompileString("import \"encoding/yaml\"\nx: string\ny: yaml.Unmarshal(x)", cue.Filename("b.cue")).FillPath(cue.ParsePath("x"), string(text)).LookupPath(cue.ParsePath("y"))
			got, err := dgen.FromCUE(bv)
			if err != nil {
				res.Fail = fmt.Sprintf("builtin yaml.Unmarshal of %q (value %s): %v", text, c.Tree.CUE(), err)
				return
			}
			if d := dgen.Diff(c.Tree, got, true, true); d != "" {
				res.Fail = fmt.Sprintf("builtin yaml.Unmarshal of %q (value %s) differs: %s", text, c.Tree.CUE(), d)
				return
			}
		}
	}
	res.NonTrivial = nt
	return
}

func genRT(t *rapid.T) RTCase {
	if rapid.IntRange(0, 3).Draw(t, "wide") == 0 {
		// one document holding several block scalars next to each other: encoder
		// passes that post-process the whole document interact across scalars
		ml := dgen.Multiline()
		n := rapid.IntRange(2, 5).Draw(t, "nml")
		tr := &dgen.Node{K: "object"}
		for i := 0; i < n; i++ {
			s := rapid.SampledFrom(ml).Draw(t, "ml")
			if rapid.IntRange(0, 3).Draw(t, "join") == 0 {
				s += rapid.SampledFrom(ml).Draw(t, "ml2")
			}
			var v *dgen.Node = &dgen.Node{K: "string", S: s}
			if rapid.IntRange(0, 3).Draw(t, "nest") == 0 {
				v = &dgen.Node{K: "list", L: []*dgen.Node{v, {K: "int", N: "1"}}}
			}
			tr.O = append(tr.O, &dgen.Field{K: fmt.Sprintf("k%d", i), V: v})
		}
		return RTCase{Tree: tr, Via: rapid.SampledFrom([]string{"encode", "encode", "builtin", "stream"}).Draw(t, "via")}
	}
	o := dgen.Opts{Depth: 3, Strings: [][]string{dgen.YAMLHostile, dgen.YAMLHostile, dgen.CUEHostile}, NFC: true}
	return RTCase{Tree: dgen.Gen(t, o), Via: rapid.SampledFrom([]string{"encode", "encode", "encode", "builtin", "stream"}).Draw(t, "via")}
}

func TestRoundTrip(t *testing.T) {
	evid.Main(t, evid.Check[RTCase]{Name: "roundtrip", Gen: genRT, Run: runRT})
}

// TestPool: every pool string alone, as value and as key, in a list and nested (enumeration).
func TestPool(t *testing.T) {
	shard, n := evid.Shard()
	evid.Enumerate(t, evid.Check[RTCase]{Name: "pool", Run: runRT}, func(yield func(RTCase) bool) {
		i := 0
		for _, pool := range [][]string{dgen.YAMLHostile, dgen.CUEHostile} {
			for _, s := range pool {
				if !utf8.ValidString(s) {
					continue
				}
				str := &dgen.Node{K: "string", S: s}
				trees := []*dgen.Node{
					str,
					{K: "list", L: []*dgen.Node{str}},
					{K: "object", O: []*dgen.Field{{K: s, V: &dgen.Node{K: "int", N: "1"}}}},
					{K: "object", O: []*dgen.Field{{K: "a", V: str}}},
					{K: "object", O: []*dgen.Field{{K: "a", V: &dgen.Node{K: "list", L: []*dgen.Node{{K: "object", O: []*dgen.Field{{K: s, V: str}}}}}}}},
				}
				for _, tr := range trees {
					i++
					if i%n != shard {
						continue
					}
					if !yield(RTCase{Tree: tr, Via: "encode"}) {
						return
					}
				}
			}
		}
	}, true)
}

// ---- JSON through the YAML decoder ---------------------------------------------------

type JCase struct {
	Doc []byte
}

func runJ(c JCase) (res evid.Result) {
	defer func() {
		if r := recover(); r != nil {
			res.Fail = fmt.Sprintf("panic: %v on %q", r, c.Doc)
		}
	}()
	if !utf8.Valid(c.Doc) || !gojson.Valid(c.Doc) {
		res.Skip = true
		return
	}
	if e := jsonExcluded(c.Doc); excl && e != "" {
		res.Skip, res.Excluded = true, e
		return
	}
	want, err := dgen.ParseJSON(c.Doc)
	if err != nil || !want.NumbersOK() {
		res.Skip = true
		return
	}
	dup := false
	want.Walk(func(x *dgen.Node, _ bool) {
		seen := map[string]bool{}
		for _, f := range x.O {
			if seen[f.K] {
				dup = true
			}
			seen[f.K] = true
		}
	})
	if dup {
		res.Skip = true
		return
	}
	cx := fresh()
	je, err := cuejson.Extract("x.json", c.Doc)
	if err != nil {
		res.Skip = true // C10's business
		return
	}
	jv, err := dgen.FromCUE(cx.BuildExpr(je))
	if err != nil {
		res.Skip = true
		return
	}
	f, err := yaml.Extract("x.yaml", c.Doc)
	if err != nil {
		res.Fail = fmt.Sprintf("yaml.Extract rejects the JSON document %q: %v", c.Doc, err)
		return
	}
	yv := cx.BuildFile(f)
	got, err := dgen.FromCUE(yv)
	if err != nil {
		res.Fail = fmt.Sprintf("JSON %q through the YAML decoder: %v", c.Doc, err)
		return
	}
	if d := dgen.Diff(jv, got, false, true); d != "" {
		res.Fail = fmt.Sprintf("JSON %q through the YAML decoder differs from the JSON decoder: %s", c.Doc, d)
		return
	}
	if d := dgen.Diff(want, got, false, true); d != "" {
		res.Fail = fmt.Sprintf("JSON %q through the YAML decoder differs from encoding/json: %s", c.Doc, d)
		return
	}
	res.NonTrivial = bytes.ContainsAny(c.Doc, "\\\t\r") || want.MaxDepth() >= 2
	return
}

func genJ(t *rapid.T) JCase {
	o := dgen.Opts{Depth: 3, Strings: [][]string{dgen.YAMLHostile, dgen.CUEHostile}, NFC: true}
	tree := dgen.Gen(t, o)
	ws := func() string { return rapid.SampledFrom([]string{"", "", " ", "\n"}).Draw(t, "outerws") }
	return JCase{Doc: []byte(ws() + tree.JSONText(t) + ws())}
}

func TestJSONAsYAML(t *testing.T) {
	evid.Main(t, evid.Check[JCase]{Name: "json-as-yaml", Gen: genJ, Run: runJ})
}
