package c11

import (
	"bytes"

	"cuelang.org/go/verifh/dgen"
)

// knownBad names the exclusion (tied to a known finding) that removes string s
// from generation, or "". Each predicate describes the root cause, not the
// individual failing strings.
func knownBad(s string, isKey bool) string { return dgen.YAMLKnownBad(s, isKey) }

func jsonExcluded(doc []byte) string {
	if bytes.ContainsAny(doc, "\t") {
		// F24: tab before the colon is rejected
		return "NoTabWhitespace(F24)"
	}
	return ""
}
