package c11

import (
	"bytes"
	"strings"
	"unicode"

	"golang.org/x/text/unicode/norm"
)

// knownBad names the exclusion (tied to a known finding) that removes string s
// from generation, or "". Each predicate describes the root cause, not the
// individual failing strings.
func knownBad(s string, isKey bool) string {
	if isKey && !norm.NFC.IsNormalString(s) {
		// F10: the compiler NFC-normalises labels (applies to C10-C12)
		return "NFCLabelsOnly(F10)"
	}
	if strings.HasPrefix(s, "...") {
		// F34a: a plain scalar or key starting with "..." is emitted unquoted and
		// read as a document-end marker
		return "NoLeadingDocumentEndMarker(F34a)"
	}
	if i := strings.IndexByte(s, '\n'); i >= 0 && strings.TrimLeft(s[:i], " \t") == "" {
		// F11: a multi-line string whose first line is blank is emitted as a literal
		// block scalar without indentation indicator / keep chomping and loses characters
		return "NoBlankFirstLineInMultiline(F11)"
	}
	for _, r := range s {
		if r > 0x7e && !unicode.IsPrint(r) {
			// F20: non-printable Unicode is written as a \u escape inside a
			// single-quoted scalar, where YAML does not interpret escapes
			return "NoNonPrintableUnicode(F20)"
		}
	}
	if isKey && strings.ContainsAny(s, "\n\r") {
		// F48: a key containing a newline is emitted as a block-scalar key that does not read back as a mapping
		return "NoMultilineKey(F48)"
	}
	if isKey && strings.Contains(s, "<<") {
		// F47: a key ending in "<<" (e.g. "~<<") is emitted plain and read as a merge key
		return "NoMergeKeyLookalike(F47)"
	}
	return ""
}

func jsonExcluded(doc []byte) string {
	if bytes.ContainsAny(doc, "\t") {
		// F24: tab before the colon is rejected
		return "NoTabWhitespace(F24)"
	}
	return ""
}
