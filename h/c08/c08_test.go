// Package c08: cue fmt is idempotent and never changes what a file means.
package c08

import (
	"bytes"

	"fmt"
	"github.com/cockroachdb/apd/v3"
	"os"
	"regexp"
	"strings"
	"testing"

	"cuelang.org/go/cue/ast"
	"cuelang.org/go/cue/cuecontext"
	"cuelang.org/go/cue/format"
	"cuelang.org/go/cue/literal"
	"cuelang.org/go/cue/parser"
	"cuelang.org/go/cue/token"
	"cuelang.org/go/verifh/canon"
	"cuelang.org/go/verifh/corpus"
	"cuelang.org/go/verifh/evid"
	"cuelang.org/go/verifh/pgen"
	"pgregory.net/rapid"
)

var reQuotedSpecial = regexp.MustCompile(`"[#_][A-Za-z0-9_#]*"\s*[?!]?:`)

var reCommentAfterParen = regexp.MustCompile(`[(\[{][ \t]*//`)
var reCommentAfterColon = regexp.MustCompile(`:[ \t]*\n[ \t]*//`)
var reOpenPattern = regexp.MustCompile(`\[(string|_)\]:\s*_\b`)

var reIndent = regexp.MustCompile(`\n[ \t]*`)

var excl = os.Getenv("VERIF_MODE") != "replay"

type Case struct {
	Src      []byte
	Simplify bool
	Kind     string
}

// dump is a position-free rendering of the syntax tree: node kinds, operator
// tokens, identifiers, literals by decoded value, attributes verbatim, and each
// comment group under its owner with its doc/line class and text.
func dump(f *ast.File, withComments bool) string {
	var sb strings.Builder
	depth := 0
	inInterp := map[*ast.BasicLit]bool{}
	ast.Walk(f, func(n ast.Node) bool {
		ind := strings.Repeat(" ", depth)
		switch n.(type) {
		case *ast.CommentGroup, *ast.Comment:
		default:
			depth++
		}
		switch x := n.(type) {
		case *ast.CommentGroup:
			if withComments {
				fmt.Fprintf(&sb, "%sCOMMENTS doc=%v", ind, x.Doc)
				for _, c := range x.List {
					fmt.Fprintf(&sb, " %q", strings.TrimRight(c.Text, " \t"))
				}
				sb.WriteByte('\n')
			}
			return false
		case *ast.Comment:
			return false
		case *ast.Ident:
			fmt.Fprintf(&sb, "%sIdent %s\n", ind, x.Name)
		case *ast.BasicLit:
			v := x.Value
			if inInterp[x] {
				// pieces of a (multi-line) interpolation are raw text that the formatter re-indents
				v = reIndent.ReplaceAllString(v, "\n")
			} else if x.Kind == token.INT || x.Kind == token.FLOAT {
				// number spellings are normalised by the formatter (1. -> 1.0, 1E3 -> 1e3, 017 -> 0o17)
				var ni literal.NumInfo
				if literal.ParseNum(v, &ni) == nil {
					var d apd.Decimal
					if ni.Decimal(&d) == nil {
						d.Reduce(&d)
						v = d.String()
					}
				}
			} else if x.Kind == token.STRING {
				if s, err := literal.Unquote(v); err == nil {
					kind := "str"
					if strings.HasPrefix(strings.TrimLeft(v, "#"), "'") {
						kind = "bytes"
					}
					v = fmt.Sprintf("%s:%q", kind, s)
				}
			}
			fmt.Fprintf(&sb, "%sLit %v %s\n", ind, x.Kind, v)
		case *ast.BinaryExpr:
			fmt.Fprintf(&sb, "%sBinary %v\n", ind, x.Op)
		case *ast.UnaryExpr:
			fmt.Fprintf(&sb, "%sUnary %v\n", ind, x.Op)
		case *ast.PostfixExpr:
			fmt.Fprintf(&sb, "%sPostfix %v\n", ind, x.Op)
		case *ast.Field:
			fmt.Fprintf(&sb, "%sField %v\n", ind, x.Constraint)
		case *ast.Attribute:
			fmt.Fprintf(&sb, "%sAttr %s\n", ind, x.Text)
		case *ast.Interpolation:
			for _, e := range x.Elts {
				if bl, ok := e.(*ast.BasicLit); ok {
					inInterp[bl] = true
				}
			}
			fmt.Fprintf(&sb, "%sInterpolation\n", ind)
		case *ast.ParenExpr:
			fmt.Fprintf(&sb, "%sParen\n", ind)
		case *ast.Ellipsis:
			fmt.Fprintf(&sb, "%sEllipsis\n", ind)
		case *ast.ImportSpec:
			fmt.Fprintf(&sb, "%sImportSpec\n", ind)
		case *ast.ImportDecl:
			// grouping of imports may be normalised by the formatter: only the specs matter
			depth--
			return true
		default:
			fmt.Fprintf(&sb, "%s%T\n", ind, n)
		}
		return true
	}, func(n ast.Node) {
		if _, ok := n.(*ast.ImportDecl); !ok {
			depth--
		}
	})
	return sb.String()
}

// comments returns every comment text in source order.
func comments(f *ast.File) []string {
	var out []string
	ast.Walk(f, func(n ast.Node) bool {
		if c, ok := n.(*ast.Comment); ok {
			out = append(out, strings.TrimRight(c.Text, " \t\r"))
		}
		return true
	}, nil)
	return out
}

// commentsByDecl lists, per top-level declaration, the comments found anywhere inside it.
func commentsByDecl(f *ast.File) string {
	var sb strings.Builder
	i := 0
	for _, d := range f.Decls {
		if id, ok := d.(*ast.ImportDecl); ok && len(id.Specs) == 0 {
			continue // an empty import declaration is dropped by the formatter
		}
		i++
		fmt.Fprintf(&sb, "decl %d:", i)
		ast.Walk(d, func(n ast.Node) bool {
			if c, ok := n.(*ast.Comment); ok {
				fmt.Fprintf(&sb, " %q", strings.TrimRight(c.Text, " \t\r"))
			}
			return true
		}, nil)
		sb.WriteByte('\n')
	}
	return sb.String()
}

func firstDiff(a, b string) string {
	la, lb := strings.Split(a, "\n"), strings.Split(b, "\n")
	for i := 0; i < len(la) && i < len(lb); i++ {
		if la[i] != lb[i] {
			return fmt.Sprintf("line %d: %q vs %q", i, la[i], lb[i])
		}
	}
	return fmt.Sprintf("length %d vs %d lines", len(la), len(lb))
}

func trunc(b []byte) string {
	if len(b) > 1200 {
		return string(b[:1200]) + "…"
	}
	return string(b)
}

func run(c Case) (res evid.Result) {
	defer func() {
		if r := recover(); r != nil {
			res.Fail = fmt.Sprintf("panic: %v\ninput:\n%s", r, trunc(c.Src))
		}
	}()
	res.Classes = []string{c.Kind}
	f, err := parser.ParseFile("in.cue", c.Src, parser.ParseComments)
	if err != nil {
		res.Skip = true // only parseable inputs are in the domain
		res.Classes = append(res.Classes, "unparseable")
		return
	}
	if e := excluded(c.Src); excl && e != "" {
		res.Skip, res.Excluded = true, e
		return
	}
	// strict: the repository's own sources and canonically printed generated programs: every clause is gated.
	// layout: generated programs with a random layout but no comments: everything but idempotence is gated.
	// lenient: mutated inputs and layouts with inserted comments: only "formats and parses" is gated; the
	// formatter's handling of comments in unusual positions is a known finding (F62) and is counted.
	mode := "lenient"
	switch {
	case c.Kind == "corpus" || c.Kind == "generated-canonical" || c.Kind == "generated-strings" || c.Kind == "generated-labels" || c.Kind == "generated-lists":
		mode = "strict"
	case c.Kind == "generated-layout" && !bytes.Contains(c.Src, []byte("//")):
		mode = "layout"
	}
	if !excl {
		mode = "strict"
	}
	res.Classes = append(res.Classes, "mode:"+mode)
	var opts []format.Option
	if c.Simplify {
		opts = append(opts, format.Simplify())
		res.Classes = append(res.Classes, "simplify")
	}
	out, err := format.Source(c.Src, opts...)
	if err != nil {
		res.Fail = fmt.Sprintf("formatting a file that parses fails: %v\ninput:\n%s", err, trunc(c.Src))
		return
	}
	g, err := parser.ParseFile("in.cue", out, parser.ParseComments)
	if err != nil && mode == "lenient" && bytes.Contains(c.Src, []byte("//")) && bytes.ContainsAny(c.Src, "([") {
		// F58 family: a comment inside a parenthesised or bracketed expression ends up before closing tokens
		res.Excluded = "CommentInsideBrackets(F58)"
		res.Classes = append(res.Classes, "output-unparseable(F58)")
		return
	}
	if err != nil {
		res.Fail = fmt.Sprintf("formatted output does not parse: %v\ninput:\n%s\noutput:\n%s", err, trunc(c.Src), trunc(out))
		return
	}
	out2, err := format.Source(out, opts...)
	if (err != nil || !bytes.Equal(out, out2)) && mode != "strict" {
		// known finding F59: on unusual layouts the second pass still moves things; counted, and gated
		// only for the repository's own sources and canonically laid out programs
		res.Excluded = "IdempotenceGatedOnCanonicalLayoutsOnly(F59)"
		res.Classes = append(res.Classes, "non-idempotent(F59)")
	} else if err != nil || !bytes.Equal(out, out2) {
		res.Fail = fmt.Sprintf("formatting is not idempotent (err %v)\ninput:\n%s\nfirst:\n%s\nsecond:\n%s", err, trunc(c.Src), trunc(out), trunc(out2))
		return
	}
	if mode == "lenient" {
		if a, b := dump(f, false), dump(g, false); a != b {
			res.Excluded = "CommentsInUnusualPositions(F62)"
			res.Classes = append(res.Classes, "tree-changed(F62)")
		} else if strings.Join(comments(f), "\x00") != strings.Join(comments(g), "\x00") {
			res.Excluded = "CommentsInUnusualPositions(F62)"
			res.Classes = append(res.Classes, "comments-changed(F62)")
		}
		res.NonTrivial = bytes.Contains(c.Src, []byte("//")) || multiLine(f)
		return
	}
	if !c.Simplify {
		if a, b := dump(f, false), dump(g, false); a != b {
			res.Fail = fmt.Sprintf("formatting changed the syntax tree: %s\ninput:\n%s\noutput:\n%s", firstDiff(a, b), trunc(c.Src), trunc(out))
			return
		}
		ca, cb := comments(f), comments(g)
		if strings.Join(ca, "\x00") != strings.Join(cb, "\x00") {
			res.Fail = fmt.Sprintf("formatting lost, duplicated or reordered comments: %q vs %q\ninput:\n%s\noutput:\n%s", ca, cb, trunc(c.Src), trunc(out))
			return
		}
		// attachment: every comment must stay inside the same top-level declaration (the exact owner
		// node is derived by the parser from layout and legitimately shifts between a brace and the
		// node it opens; see DESIGN.md C08)
		if c.Kind == "generated-lists" {
			// lists with one element per line: every comment group must stay with the same element, in
			// the same position class (doc or trailing), and groups must neither merge nor split
			if a, b := dump(f, true), dump(g, true); a != b {
				res.Fail = fmt.Sprintf("formatting moved, merged or split comments of list elements: %s\ninput:\n%s\noutput:\n%s", firstDiff(a, b), trunc(c.Src), trunc(out))
				return
			}
		}
		if a, b := commentsByDecl(f), commentsByDecl(g); a != b {
			res.Fail = fmt.Sprintf("formatting moved a comment to another declaration: %s\ninput:\n%s\noutput:\n%s", firstDiff(a, b), trunc(c.Src), trunc(out))
			return
		}
	} else {
		// -s may change the tree in documented ways: the meaning must stay
		ca, cb := comments(f), comments(g)
		if len(ca) != len(cb) {
			res.Fail = fmt.Sprintf("fmt -s lost or duplicated comments: %q vs %q\ninput:\n%s", ca, cb, trunc(c.Src))
			return
		}
		if !bytes.Contains(c.Src, []byte("import")) {
			va := cuecontext.New().CompileBytes(c.Src)
			vb := cuecontext.New().CompileBytes(out)
			if a, b := openNorm(canon.Of(va, 0)), openNorm(canon.Of(vb, 0)); a != b {
				res.Fail = fmt.Sprintf("fmt -s changed the meaning\ninput:\n%s\noutput:\n%s\ncanon before: %s\ncanon after:  %s", trunc(c.Src), trunc(out), a, b)
				return
			}
		}
	}
	res.NonTrivial = bytes.Contains(c.Src, []byte("//")) || multiLine(f)
	return
}

// openNorm removes the difference between `[string]: _` and `...` (a documented -s rewrite).
func openNorm(s string) string {
	for _, r := range []string{", [_]: NIL", "[_]: NIL", ", [_]: _:_", "[_]: _:_", ", [string]: NIL", "[string]: NIL", ", [string]: _:_", "[string]: _:_", ", [string]: <deep>", "[string]: <deep>", ", [_]: <deep>", "[_]: <deep>", "E "} {
		s = strings.ReplaceAll(s, r, "")
	}
	return s
}

func multiLine(f *ast.File) bool {
	ml := false
	ast.Walk(f, func(n ast.Node) bool {
		switch n.(type) {
		case *ast.ListLit, *ast.CallExpr, *ast.StructLit:
			if n.Pos().IsValid() && n.End().IsValid() && n.Pos().Line() != n.End().Line() {
				ml = true
			}
		}
		return !ml
	}, nil)
	return ml
}

// layout rewrites a program printed on one line with a random layout:
// newlines instead of ", ", comments, blank lines, redundant commas.
func layout(t *rapid.T, src string) string {
	var sb strings.Builder
	for i := 0; i < len(src); i++ {
		if src[i] == ',' && i+1 < len(src) && src[i+1] == ' ' {
			switch rapid.IntRange(0, 7).Draw(t, "sep") {
			case 0, 1:
				sb.WriteString("\n")
			case 2:
				sb.WriteString(",\n")
			case 3:
				sb.WriteString("\n\n")
			case 4:
				sb.WriteString(" // " + rapid.SampledFrom([]string{"c", "note", "x: 1", "TODO(x): y", "", "a,b"}).Draw(t, "cmt") + "\n")
			case 5:
				sb.WriteString("\n// " + rapid.SampledFrom([]string{"doc", "doc line 2", ""}).Draw(t, "doc") + "\n")
			case 6:
				sb.WriteString(",\n\t")
			default:
				sb.WriteString(", ")
			}
			i++
			continue
		}
		if (src[i] == '{' || src[i] == '[' || src[i] == '(') && rapid.IntRange(0, 5).Draw(t, "open") == 0 {
			sb.WriteByte(src[i])
			sb.WriteString(rapid.SampledFrom([]string{"\n", "\n\t", " // o\n", "\n\n"}).Draw(t, "afteropen"))
			continue
		}
		if (src[i] == '}' || src[i] == ']' || src[i] == ')') && rapid.IntRange(0, 5).Draw(t, "close") == 0 {
			sb.WriteString(rapid.SampledFrom([]string{"\n", ",\n", "\n\t"}).Draw(t, "beforeclose"))
			sb.WriteByte(src[i])
			continue
		}
		if src[i] == '&' && rapid.IntRange(0, 8).Draw(t, "amp") == 0 {
			sb.WriteString("&\n\t")
			continue
		}
		sb.WriteByte(src[i])
	}
	return sb.String()
}

// genStrings: fields whose values are multi-line string and bytes literals with lines that consist
// of whitespace only (shorter than, equal to and longer than the indentation), trailing blanks,
// tabs mixed with spaces, and escapes: the formatter re-indents such literals and must not change a byte
// of their value.
func genStrings(t *rapid.T) string {
	var sb strings.Builder
	for i := 0; i < rapid.IntRange(1, 3).Draw(t, "nstr"); i++ {
		indent := rapid.SampledFrom([]string{"\t", "\t\t", "    ", "  ", ""}).Draw(t, "indent")
		q := rapid.SampledFrom([]string{`"""`, `'''`, `#"""`}).Draw(t, "quote")
		closeQ := q
		if strings.HasPrefix(q, "#") {
			closeQ = q[1:] + "#"
		}
		nest := rapid.Bool().Draw(t, "nest")
		if nest {
			fmt.Fprintf(&sb, "s%d: t: %s\n", i, q)
		} else {
			fmt.Fprintf(&sb, "s%d: %s\n", i, q)
		}
		for j := 0; j < rapid.IntRange(0, 4).Draw(t, "nlines"); j++ {
			line := rapid.SampledFrom([]string{"foo", "", " ", "   ", "\t", " \t ", "bar  ", "  baz", "\\n", "a\tb", "\u00a0", "x // not a comment", "}"}).Draw(t, "line")
			if line == "" && rapid.Bool().Draw(t, "bare") {
				sb.WriteString("\n") // a completely empty line (no indentation) is allowed inside the literal
				continue
			}
			sb.WriteString(indent + line + "\n")
		}
		sb.WriteString(indent + closeQ + "\n")
	}
	return sb.String()
}

// genLabels: quoted labels that are valid identifiers next to references to fields of the same name
// in an enclosing scope, in either order: -s may only unquote a label when that captures no reference.
func genLabels(t *rapid.T) string {
	names := []string{"a", "b", "baz"}
	var sb strings.Builder
	for i, n := range names {
		fmt.Fprintf(&sb, "%s: %d\n", n, i+1)
	}
	var body func(depth int) string
	body = func(depth int) string {
		var ds []string
		for i := 0; i < rapid.IntRange(1, 4).Draw(t, "ndecl"); i++ {
			n := rapid.SampledFrom(names).Draw(t, "name")
			switch rapid.IntRange(0, 4).Draw(t, "dk") {
			case 0, 1:
				ds = append(ds, fmt.Sprintf("r%d: %s", i, n))
			case 2, 3:
				ds = append(ds, fmt.Sprintf("%q: %d", n, 10*(i+1)))
			default:
				if depth > 0 {
					ds = append(ds, fmt.Sprintf("n%d: {%s}", i, body(depth-1)))
				} else {
					ds = append(ds, fmt.Sprintf("%q: %s", "q"+n, n))
				}
			}
		}
		return strings.Join(ds, rapid.SampledFrom([]string{", ", "\n"}).Draw(t, "dsep"))
	}
	depth := 2
	if excl {
		// known finding F84: -s unquotes a label although a struct nested below it refers to an outer
		// field of that name (b: 2, y: {"b": 10, n: {r: b}} becomes y: {b: 10, n: {r: b}}: r is now 10).
		// In the gated search quoted labels and references share one struct body.
		depth = 0
	}
	for i := 0; i < rapid.IntRange(1, 3).Draw(t, "nbody"); i++ {
		fmt.Fprintf(&sb, "y%d: {%s}\n", i, body(depth))
	}
	return sb.String()
}

// genLists: lists with one element per line, written with or without commas, whose elements have doc
// comments (optionally after a blank line) and trailing comments.
func genLists(t *rapid.T) string {
	var sb strings.Builder
	for i := 0; i < rapid.IntRange(1, 2).Draw(t, "nlist"); i++ {
		comma := rapid.SampledFrom([]string{"", ","}).Draw(t, "comma")
		fmt.Fprintf(&sb, "l%d: [\n", i)
		for j := 0; j < rapid.IntRange(1, 4).Draw(t, "nelem"); j++ {
			if j > 0 && rapid.IntRange(0, 2).Draw(t, "blank") == 0 {
				sb.WriteString("\n")
			}
			if rapid.IntRange(0, 2).Draw(t, "doc") == 0 {
				fmt.Fprintf(&sb, "\t// doc %d\n", j)
			}
			el := rapid.SampledFrom([]string{"1", `"s"`, "{a: 1}", "[1, 2]", "x"}).Draw(t, "elem")
			sb.WriteString("\t" + el + comma)
			if rapid.IntRange(0, 2).Draw(t, "trail") == 0 {
				fmt.Fprintf(&sb, " // trailing %d", j)
			}
			sb.WriteString("\n")
			if rapid.IntRange(0, 3).Draw(t, "own") == 0 {
				fmt.Fprintf(&sb, "\t// after %d\n", j)
			}
		}
		sb.WriteString("]\n")
	}
	sb.WriteString("x: 1\n")
	return sb.String()
}

func gen(t *rapid.T) Case {
	files := corpus.Files(3000)
	c := Case{Simplify: rapid.IntRange(0, 3).Draw(t, "simplify") == 0}
	switch k := rapid.IntRange(0, 12).Draw(t, "kind"); {
	case k == 10:
		c.Src, c.Kind = []byte(genStrings(t)), "generated-strings"
	case k == 11:
		c.Src, c.Kind, c.Simplify = []byte(genLabels(t)), "generated-labels", true
	case k == 12:
		c.Src, c.Kind, c.Simplify = []byte(genLists(t)), "generated-lists", false
	case k < 3:
		f := files[rapid.IntRange(0, len(files)-1).Draw(t, "file")]
		c.Src, c.Kind = corpus.Mutate(t, f.Data, rapid.IntRange(0, 2).Draw(t, "nmut"), files), "corpus-mutation"
	case k < 6:
		// whitespace / comment mutations of a corpus file
		f := files[rapid.IntRange(0, len(files)-1).Draw(t, "file")]
		lines := strings.Split(string(f.Data), "\n")
		n := rapid.IntRange(1, 4).Draw(t, "nws")
		for i := 0; i < n && len(lines) > 0; i++ {
			p := rapid.IntRange(0, len(lines)-1).Draw(t, "line")
			switch rapid.IntRange(0, 5).Draw(t, "wk") {
			case 0:
				lines = append(lines[:p], append([]string{""}, lines[p:]...)...)
			case 1:
				lines = append(lines[:p], append([]string{"// inserted"}, lines[p:]...)...)
			case 2:
				lines[p] += " // trailing"
			case 3:
				lines[p] = strings.TrimLeft(lines[p], " \t")
			case 4:
				lines[p] = "\t\t" + lines[p]
			case 5:
				if lines[p] == "" {
					lines = append(lines[:p], lines[p+1:]...)
				} else {
					lines[p] += ","
				}
			}
		}
		c.Src, c.Kind = []byte(strings.Join(lines, "\n")), "corpus-layout"
	default:
		g := &pgen.G{T: t, Tier: 2, F: pgen.FRefTypes | pgen.FListComp | pgen.FStructDisj | pgen.FSelectors | pgen.FDerived}
		w := pgen.GenStructW(t, 2)
		st := g.Program(w, rapid.Bool().Draw(t, "conc"))
		if rapid.IntRange(0, 2).Draw(t, "canonical") == 0 {
			c.Src, c.Kind = []byte(st.Body()), "generated-canonical"
		} else {
			c.Src, c.Kind = []byte(layout(t, st.Body())), "generated-layout"
		}
	}
	return c
}

func TestFmt(t *testing.T) {
	evid.Main(t, evid.Check[Case]{Name: "fmt", Gen: gen, Run: run, Journal: true})
}

// TestCorpus: every corpus file, with and without -s.
func TestCorpus(t *testing.T) {
	shard, n := evid.Shard()
	files := corpus.Files(200000)
	evid.Enumerate(t, evid.Check[Case]{Name: "corpus", Run: run, Journal: true}, func(yield func(Case) bool) {
		for i, f := range files {
			if i%n != shard {
				continue
			}
			if !yield(Case{Src: f.Data, Kind: "corpus"}) || !yield(Case{Src: f.Data, Kind: "corpus", Simplify: true}) {
				return
			}
		}
	}, true)
}

// excluded names the known finding that removes this input from the gated search.
func excluded(src []byte) string {
	f, err := parser.ParseFile("in.cue", src, parser.ParseComments)
	if err != nil {
		return ""
	}
	bad := ""
	if reCommentAfterParen.Match(src) {
		// F58: a line comment right after an opening parenthesis, bracket or brace
		// is re-emitted as a trailing comment before the rest of the line, commenting out code
		return "NoCommentAfterOpeningParen(F58)"
	}
	if reCommentAfterColon.Match(src) {
		// F54: a comment group between a field's colon and its value on the next line is dropped
		return "NoCommentBetweenColonAndValue(F54)"
	}
	if reOpenPattern.Match(src) && bytes.Contains(src, []byte("#")) {
		// F57: fmt -s rewrites [string]: _ to ..., which changes closedness below a definition
		return "NoOpenPatternInDefinition(F57)"
	}
	if reQuotedSpecial.Match(src) {
		// F55: fmt -s unquotes a label such as "#dev" or "_x", turning a regular field into a definition / hidden field
		return "NoQuotedDefinitionLikeLabel(F55)"
	}
	ast.Walk(f, func(n ast.Node) bool {
		var open, close token.Pos
		var last ast.Node
		switch x := n.(type) {
		case *ast.ListLit:
			if len(x.Elts) > 0 {
				open, close, last = x.Lbrack, x.Rbrack, x.Elts[len(x.Elts)-1]
			}
		case *ast.CallExpr:
			if len(x.Args) > 0 {
				open, close, last = x.Lparen, x.Rparen, x.Args[len(x.Args)-1]
			}
		}
		if last != nil && open.IsValid() && close.IsValid() && open.Line() != close.Line() && last.End().IsValid() && last.End().Line() == close.Line() && last.Pos().Line() != open.Line() {
			// F6: a multi-line list or argument list closed on the line of its last element gets its
			// bracket moved by the first pass and a trailing comma added by the second
			bad = "NoMultilineListClosedOnLastElementLine(F6)"
		}
		return bad == ""
	}, nil)
	return bad
}
