// Package c10: JSON in and out agrees with the JSON standard and round-trips.
package c10

import (
	"bytes"
	gojson "encoding/json"
	"fmt"
	"io"
	"os"
	"strings"
	"testing"
	"unicode/utf8"

	"cuelang.org/go/cue"
	"cuelang.org/go/cue/cuecontext"
	cuejson "cuelang.org/go/encoding/json"
	"cuelang.org/go/verifh/dgen"
	"cuelang.org/go/verifh/evid"
	"golang.org/x/text/unicode/norm"
	"pgregory.net/rapid"
)

var excl = os.Getenv("VERIF_MODE") != "replay"

var ctx = cuecontext.New()
var ncases int

func fresh() *cue.Context {
	ncases++
	if ncases%1000 == 0 {
		ctx = cuecontext.New()
	}
	return ctx
}

func nonTrivial(n *dgen.Node) bool {
	nt := n.MaxDepth() >= 3
	n.Walk(func(x *dgen.Node, _ bool) {
		switch x.K {
		case "string":
			for _, r := range x.S {
				if r < 0x20 || r >= 0x7f || r == '"' || r == '\\' {
					nt = true
				}
			}
		case "int", "float":
			if strings.ContainsAny(x.N, "eE") || len(x.N) > 17 {
				nt = true
			}
		}
	})
	return nt
}

// ---- out: CUE value -> JSON -----------------------------------------------------

type OutCase struct {
	Tree *dgen.Node
	Via  string // source | encode
}

func runOut(c OutCase) (res evid.Result) {
	defer func() {
		if r := recover(); r != nil {
			res.Fail = fmt.Sprintf("panic: %v", r)
		}
	}()
	cx := fresh()
	var v cue.Value
	switch c.Via {
	case "source":
		v = cx.CompileString("x: " + c.Tree.CUE()).LookupPath(cue.ParsePath("x"))
	default:
		// a Go float64 carries the nearest binary value: that is the ground truth on this path
		t64, ok := c.Tree.Float64ize()
		if !ok {
			res.Skip = true
			return
		}
		v = cx.Encode(c.Tree.Go())
		c.Tree = t64
	}
	res.Classes = []string{c.Via}
	if err := v.Validate(cue.Concrete(true)); err != nil {
		res.Fail = fmt.Sprintf("ground-truth value does not evaluate (%s): %v\n%s", c.Via, err, c.Tree.CUE())
		return
	}
	outs := map[string][]byte{}
	b, err := v.MarshalJSON()
	if err != nil {
		res.Fail = fmt.Sprintf("MarshalJSON: %v\n%s", err, c.Tree.CUE())
		return
	}
	outs["MarshalJSON"] = b
	if b2, err := gojson.Marshal(v); err == nil {
		outs["json.Marshal(v)"] = b2
	} else {
		res.Fail = fmt.Sprintf("encoding/json.Marshal(value): %v", err)
		return
	}
	// the encoding/json builtin
	bv := cx.CompileString("import \"encoding/json\"\nx: _\ny: json.Marshal(x)", cue.Filename("b.cue")).FillPath(cue.ParsePath("x"), v).LookupPath(cue.ParsePath("y"))
	if s, err := bv.String(); err == nil {
		outs["builtin json.Marshal"] = []byte(s)
	} else {
		res.Fail = fmt.Sprintf("builtin json.Marshal: %v\n%s", err, c.Tree.CUE())
		return
	}
	for how, out := range outs {
		if !gojson.Valid(out) {
			res.Fail = fmt.Sprintf("%s produced invalid JSON %q for %s", how, out, c.Tree.CUE())
			return
		}
		got, err := dgen.ParseJSON(out)
		if err != nil {
			res.Fail = fmt.Sprintf("%s output %q is not readable by encoding/json: %v", how, out, err)
			return
		}
		// ctx.Encode goes through a Go map: key order is not declaration order there
		if d := dgen.Diff(c.Tree, got, false, c.Via == "source"); d != "" {
			res.Fail = fmt.Sprintf("%s of %s = %s: %s", how, c.Tree.CUE(), out, d)
			return
		}
	}
	res.NonTrivial = nonTrivial(c.Tree)
	return
}

func genOut(t *rapid.T) OutCase {
	o := dgen.Opts{Depth: 3, Strings: [][]string{dgen.YAMLHostile, dgen.CUEHostile}, NFC: true}
	return OutCase{Tree: dgen.Gen(t, o), Via: rapid.SampledFrom([]string{"source", "source", "encode"}).Draw(t, "via")}
}

func TestOut(t *testing.T) {
	evid.Main(t, evid.Check[OutCase]{Name: "out", Gen: genOut, Run: runOut})
}

// ---- in: JSON text -> CUE ---------------------------------------------------------

type InCase struct {
	Doc   []byte
	Class string
}

func decodeAll(doc []byte) (map[string]cue.Value, string) {
	cx := fresh()
	out := map[string]cue.Value{}
	e, err := cuejson.Extract("x.json", doc)
	if err != nil {
		return nil, fmt.Sprintf("json.Extract rejects %q: %v", doc, err)
	}
	out["json.Extract"] = cx.BuildExpr(e)
	d := cuejson.NewDecoder(nil, "x.json", bytes.NewReader(doc))
	e2, err := d.Extract()
	if err != nil {
		return nil, fmt.Sprintf("json.NewDecoder.Extract rejects %q: %v", doc, err)
	}
	if _, err := d.Extract(); err != io.EOF {
		return nil, fmt.Sprintf("json.NewDecoder: second Extract on %q = %v, want io.EOF", doc, err)
	}
	out["json.NewDecoder"] = cx.BuildExpr(e2)
	// the encoding/json builtin
	bv := cx.CompileString("import \"encoding/json\"\nx: string\ny: json.Unmarshal(x)", cue.Filename("b.cue")).FillPath(cue.ParsePath("x"), string(doc)).LookupPath(cue.ParsePath("y"))
	out["builtin json.Unmarshal"] = bv
	return out, ""
}

func runIn(c InCase) (res evid.Result) {
	defer func() {
		if r := recover(); r != nil {
			res.Fail = fmt.Sprintf("panic: %v on %q", r, c.Doc)
		}
	}()
	res.Classes = []string{c.Class}
	doc := c.Doc
	if !utf8.Valid(doc) {
		// RFC 8259 requires UTF-8; encoding/json is lenient here, so there is no reference verdict
		res.Skip = true
		res.Classes = append(res.Classes, "invalid-utf8")
		return
	}
	valid := gojson.Valid(doc)
	if cuejson.Valid(doc) != valid {
		res.Fail = fmt.Sprintf("json.Valid(%q) = %v, encoding/json says %v", doc, !valid, valid)
		return
	}
	if !valid {
		if _, err := cuejson.Extract("x.json", doc); err == nil {
			res.Fail = fmt.Sprintf("json.Extract accepts invalid JSON %q", doc)
			return
		}
		d := cuejson.NewDecoder(nil, "x.json", bytes.NewReader(doc))
		var err error
		for i := 0; i < 1000 && err == nil; i++ { // a stream of values followed by garbage must end in an error
			_, err = d.Extract()
		}
		if err == io.EOF {
			// the streaming decoder accepts a sequence of valid documents; only
			// flag it when the text is not such a sequence
			dec := gojson.NewDecoder(bytes.NewReader(doc))
			dec.UseNumber()
			var x any
			var gerr error
			for gerr == nil {
				gerr = dec.Decode(&x)
			}
			if gerr != io.EOF {
				res.Fail = fmt.Sprintf("json.NewDecoder accepts invalid JSON stream %q", doc)
				return
			}
		}
		res.NonTrivial = true
		return
	}
	want, err := dgen.ParseJSON(doc)
	if err != nil || !want.NumbersOK() {
		res.Skip = true
		return
	}
	lenient := c.Class == "duplicate-keys" || c.Class == "lone-surrogate"
	if !bytes.Contains(doc, []byte("\ufffd")) {
		// encoding/json turns a lone surrogate escape into U+FFFD
		want.Walk(func(x *dgen.Node, _ bool) {
			if x.K == "string" && strings.Contains(x.S, "\ufffd") {
				lenient = true
			}
		})
	}
	hasDup := false
	want.Walk(func(x *dgen.Node, _ bool) {
		seen := map[string]bool{}
		for _, f := range x.O {
			if seen[f.K] {
				hasDup = true
			}
			seen[f.K] = true
		}
	})
	if hasDup {
		lenient = true
		if excl && c.Class != "duplicate-keys" {
			// duplicates produced by mutation may be of the merged-struct kind (known finding F46)
			res.Skip, res.Excluded = true, "NoDuplicateStructKeys(F46)"
			return
		}
	}
	if lenient && !hasDup {
		res.Classes = append(res.Classes, "lone-surrogate-lenient")
	}
	vals, bad := decodeAll(doc)
	if bad != "" {
		if lenient {
			res.Classes = append(res.Classes, "lenient-rejected")
			return
		}
		res.Fail = bad
		return
	}
	for how, v := range vals {
		if err := v.Validate(cue.Concrete(true)); err != nil {
			if lenient {
				res.Classes = append(res.Classes, "lenient-rejected")
				continue
			}
			res.Fail = fmt.Sprintf("%s of valid JSON %q does not yield concrete data: %v", how, doc, err)
			return
		}
		got, err := dgen.FromCUE(v)
		if err != nil {
			res.Fail = fmt.Sprintf("%s of %q: %v", how, doc, err)
			return
		}
		if lenient {
			// accepted outcomes: an error (above) or what encoding/json does (last duplicate wins / U+FFFD)
			lw := lastWins(want)
			if d := dgen.Diff(lw, got, false, false); d != "" {
				res.Fail = fmt.Sprintf("%s of %q is neither an error nor encoding/json's reading: %s", how, doc, d)
				return
			}
			continue
		}
		if d := dgen.Diff(want, got, false, true); d != "" {
			res.Fail = fmt.Sprintf("%s of %q: %s", how, doc, d)
			return
		}
		// marshal what was decoded: equivalent document
		out, err := v.MarshalJSON()
		if err != nil {
			res.Fail = fmt.Sprintf("MarshalJSON after %s of %q: %v", how, doc, err)
			return
		}
		back, err := dgen.ParseJSON(out)
		if err != nil {
			res.Fail = fmt.Sprintf("re-marshalled %q is not valid JSON: %v", out, err)
			return
		}
		if d := dgen.Diff(want, back, false, true); d != "" {
			res.Fail = fmt.Sprintf("%q re-marshals (after %s) as %q: %s", doc, how, out, d)
			return
		}
	}
	res.NonTrivial = nonTrivial(want) || bytes.Contains(c.Doc, []byte(`\`))
	return
}

// lastWins mimics encoding/json's map decoding: the last duplicate key wins
// (position of the first occurrence is irrelevant: compared unordered).
func lastWins(n *dgen.Node) *dgen.Node {
	c := *n
	c.L = nil
	for _, e := range n.L {
		c.L = append(c.L, lastWins(e))
	}
	c.O = nil
	idx := map[string]int{}
	for _, f := range n.O {
		if i, ok := idx[f.K]; ok {
			c.O[i] = &dgen.Field{K: f.K, V: lastWins(f.V)}
			continue
		}
		idx[f.K] = len(c.O)
		c.O = append(c.O, &dgen.Field{K: f.K, V: lastWins(f.V)})
	}
	return &c
}

func genIn(t *rapid.T) InCase {
	o := dgen.Opts{Depth: 3, Strings: [][]string{dgen.YAMLHostile, dgen.CUEHostile}, NFC: true}
	tree := dgen.Gen(t, o)
	ws := func() string { return rapid.SampledFrom([]string{"", "", " ", "\n", "\t", "\r\n"}).Draw(t, "outerws") }
	doc := ws() + tree.JSONText(t) + ws()
	class := "valid"
	switch rapid.IntRange(0, 19).Draw(t, "special") {
	case 0: // deep nesting
		d := rapid.SampledFrom([]int{50, 200, 1000}).Draw(t, "depth")
		if rapid.Bool().Draw(t, "obj") {
			doc = strings.Repeat(`{"a":`, d) + "1" + strings.Repeat("}", d)
		} else {
			doc = strings.Repeat("[", d) + strings.Repeat("]", d)
		}
		class = "deep"
	case 1:
		k := dgen.JSONStringSpelling(t, rapid.SampledFrom([]string{"a", "", "k"}).Draw(t, "dk"))
		v1 := rapid.SampledFrom([]string{"1", `{"x":1}`, `"s"`, "[1]"}).Draw(t, "dv1")
		v2 := rapid.SampledFrom([]string{"1", "2", `{"y":2}`, `{"x":1}`, `"s"`}).Draw(t, "dv2")
		if excl && v1 == `{"x":1}` && v2 == `{"y":2}` {
			// known finding F46: duplicate keys with struct values are merged silently
			v2 = "2"
		}
		doc = "{" + k + ":" + v1 + "," + k + ":" + v2 + "}"
		class = "duplicate-keys"
	case 2:
		doc = rapid.SampledFrom([]string{`"\ud83d"`, `"\ude00"`, `"a\ud800b"`, `["\udc00\ud800"]`, `{"\ud800":1}`}).Draw(t, "ls")
		class = "lone-surrogate"
	case 3, 4, 5: // one-step mutation towards invalid
		b := []byte(doc)
		if len(b) > 0 {
			p := rapid.IntRange(0, len(b)-1).Draw(t, "mpos")
			ins := rapid.SampledFrom([]string{",", "0", "'", "\x01", "NaN", "}", "]", "\"", "\\", ":", "tru", "+", ".", "e", "//c\n", "\xff", "\xef\xbb\xbf", "_"}).Draw(t, "mins")
			switch rapid.IntRange(0, 2).Draw(t, "mk") {
			case 0:
				b = append(b[:p], append([]byte(ins), b[p:]...)...)
			case 1:
				b = append(b[:p], b[p+1:]...)
			case 2:
				b = b[:p]
			}
			doc = string(b)
		}
		class = "mutated"
		if gojson.Valid([]byte(doc)) {
			class = "mutated-still-valid"
		}
	}
	return InCase{Doc: []byte(doc), Class: class}
}

func inExcluded(c InCase) string {
	if !excl {
		return ""
	}
	if bytes.Contains(c.Doc, []byte("\ufeff")) && gojson.Valid(c.Doc) {
		return "NoRawBOMInString(F23)"
	}
	return ""
}

func TestIn(t *testing.T) {
	evid.Main(t, evid.Check[InCase]{Name: "in", Gen: genIn, Run: func(c InCase) evid.Result {
		if e := inExcluded(c); e != "" {
			return evid.Result{Skip: true, Excluded: e}
		}
		return runIn(c)
	}})
}

var _ = utf8.RuneError
var _ = norm.NFC
