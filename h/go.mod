module cuelang.org/go/verifh

go 1.25.0

require (
	cuelabs.dev/go/oci/ociregistry v0.0.0-20260717083115-5eb5795f322a
	cuelang.org/go v0.0.0
	github.com/cockroachdb/apd/v3 v3.2.3
	github.com/pelletier/go-toml/v2 v2.4.3
	go.yaml.in/yaml/v3 v3.0.5
	golang.org/x/mod v0.38.0
	golang.org/x/text v0.40.0
	pgregory.net/rapid v1.3.0
)

require (
	github.com/emicklei/proto v1.14.3 // indirect
	github.com/goccy/go-yaml v1.19.2 // indirect
	github.com/google/uuid v1.6.0 // indirect
	github.com/mitchellh/go-wordwrap v1.0.1 // indirect
	github.com/opencontainers/go-digest v1.0.0 // indirect
	github.com/opencontainers/image-spec v1.1.1 // indirect
	github.com/protocolbuffers/txtpbfmt v0.0.0-20260716171823-6d48527148f0 // indirect
	github.com/rogpeppe/go-internal v1.16.0 // indirect
	golang.org/x/net v0.57.0 // indirect
	golang.org/x/sync v0.22.0 // indirect
	google.golang.org/protobuf v1.36.11 // indirect
)

replace cuelang.org/go => /repo
