module cuelang.org/go/verifh

go 1.25.0

require (
	cuelang.org/go v0.0.0
	golang.org/x/mod v0.38.0
	pgregory.net/rapid v1.3.0
)

replace cuelang.org/go => /repo
