// Package c14: minimal version selection is minimal, sufficient and
// order/schedule independent; version comparison is SemVer 2.0 precedence.
package c14

import (
	"fmt"
	"context"
	"math/big"
	"sync"
	"sync/atomic"
	"runtime"
	"sort"
	"strings"
	"testing"
	"time"

	"cuelang.org/go/internal/mod/modrequirements"
	"cuelang.org/go/internal/mod/mvs"
	"cuelang.org/go/internal/par"
	"cuelang.org/go/mod/modfile"
	"cuelang.org/go/internal/mod/semver"
	"cuelang.org/go/mod/module"
	"cuelang.org/go/verifh/evid"
	xsemver "golang.org/x/mod/semver"
	"pgregory.net/rapid"
)

// ---- graphs ------------------------------------------------------------------

type MV struct{ P, V string }

func (m MV) String() string { return m.P + "@" + m.V }

type Edge struct {
	From MV
	To   []MV
}

type GraphCase struct {
	Edges   []Edge // requirement lists, in the order they are served
	Missing []MV   // module versions whose requirements cannot be loaded
	Perm    []int  // how the requirement lists are permuted for the second run
	Sched   []int  // delay seeds, one per repetition
	Upgrade []MV
	Down    []MV
}

var target = MV{"main", ""}

type reqs struct {
	g       map[MV][]MV
	missing map[MV]bool
	seed    int
	latest  map[string]string
	allVers map[string][]string // ascending
}

func (r *reqs) New(p, v string) (MV, error) { return MV{p, v}, nil }
func (r *reqs) Path(m MV) string            { return m.P }
func (r *reqs) Version(m MV) string         { return m.V }
func (r *reqs) Max(a, b string) string      { return module.Versions{}.Max(a, b) }
func (r *reqs) Required(m MV) ([]MV, error) {
	if r.seed >= 0 {
		h := (len(m.P)*31 + len(m.V)*17 + r.seed*7 + int(m.P[len(m.P)-1]) + int(vlast(m.V))) % 5
		for i := 0; i < h; i++ {
			runtime.Gosched()
		}
		if h == 4 {
			time.Sleep(time.Duration(r.seed%3) * 50 * time.Microsecond)
		}
	}
	if r.missing[m] {
		return nil, fmt.Errorf("cannot load requirements of %v", m)
	}
	return r.g[m], nil
}
func (r *reqs) Upgrade(m MV) (MV, error) {
	if l, ok := r.latest[m.P]; ok && (m.V == "none" || semver.Compare(l, m.V) > 0) {
		return MV{m.P, l}, nil
	}
	return m, nil
}
func (r *reqs) Previous(m MV) (MV, error) {
	vs := r.allVers[m.P]
	prev := "none"
	for _, v := range vs {
		if semver.Compare(v, m.V) < 0 {
			prev = v
		}
	}
	return MV{m.P, prev}, nil
}

func vlast(v string) byte {
	if v == "" {
		return 0
	}
	return v[len(v)-1]
}

var versPool = []string{"v0.1.0", "v1.0.0", "v1.0.1-alpha", "v1.0.1-alpha.1", "v1.0.1-alpha.beta", "v1.0.1-2", "v1.0.1-10", "v1.0.1", "v1.2.0", "v1.10.0", "v2.0.0-rc.1", "v2.0.0"}

func genGraph(t *rapid.T) GraphCase {
	nm := rapid.IntRange(2, 8).Draw(t, "nmods")
	nv := rapid.IntRange(1, 4).Draw(t, "nvers")
	off := rapid.IntRange(0, len(versPool)-nv).Draw(t, "versoff")
	vers := versPool[off : off+nv]
	all := []MV{target}
	for i := 0; i < nm; i++ {
		for _, v := range vers {
			all = append(all, MV{fmt.Sprintf("m%d", i), v})
		}
	}
	var c GraphCase
	for _, m := range all {
		n := rapid.IntRange(0, 3).Draw(t, "nreq")
		if m == target {
			n = rapid.IntRange(1, 4).Draw(t, "nreqmain")
		}
		e := Edge{From: m}
		seen := map[string]bool{}
		for j := 0; j < n; j++ {
			d := all[rapid.IntRange(1, len(all)-1).Draw(t, "dep")]
			if rapid.IntRange(0, 30).Draw(t, "onmain") == 0 && m != target {
				d = MV{"main", vers[0]} // a dependency requiring an older version of the main module
			}
			if d.P == m.P || (seen[d.P] && rapid.IntRange(0, 3).Draw(t, "dupok") > 0) {
				continue
			}
			seen[d.P] = true
			e.To = append(e.To, d)
			if rapid.IntRange(0, 7).Draw(t, "twice") == 0 && d.P != "main" {
				// the same module once more, at another version, right next to it
				e.To = append(e.To, MV{d.P, vers[rapid.IntRange(0, len(vers)-1).Draw(t, "twicev")]})
			}
		}
		c.Edges = append(c.Edges, e)
		if m != target && rapid.IntRange(0, 60).Draw(t, "missing") == 0 {
			c.Missing = append(c.Missing, m)
		}
	}
	c.Perm = rapid.Permutation(seq(len(c.Edges))).Draw(t, "perm")
	for i := 0; i < 5; i++ {
		c.Sched = append(c.Sched, rapid.IntRange(0, 1000).Draw(t, "sched"))
	}
	if rapid.Bool().Draw(t, "upg") {
		c.Upgrade = append(c.Upgrade, all[rapid.IntRange(1, len(all)-1).Draw(t, "upgm")])
	}
	if rapid.Bool().Draw(t, "down") {
		c.Down = append(c.Down, all[rapid.IntRange(1, len(all)-1).Draw(t, "downm")])
	}
	return c
}

func seq(n int) []int {
	s := make([]int, n)
	for i := range s {
		s[i] = i
	}
	return s
}

// model: brute-force fixpoint. Returns selected versions (path -> version) of
// everything reachable from the target, whether a missing module is reachable,
// and the number of paths reached at two or more versions.
func model(g map[MV][]MV, missing map[MV]bool, roots []MV) (map[string]string, bool, int) {
	reach := map[MV]bool{}
	var queue []MV
	for _, r := range roots {
		reach[r] = true
		queue = append(queue, r)
	}
	hitMissing := false
	for len(queue) > 0 {
		m := queue[0]
		queue = queue[1:]
		if missing[m] {
			hitMissing = true
			continue
		}
		for _, d := range g[m] {
			if !reach[d] {
				reach[d] = true
				queue = append(queue, d)
			}
		}
	}
	sel := map[string]string{}
	count := map[string]int{}
	for m := range reach {
		count[m.P]++
		cur, ok := sel[m.P]
		if !ok || mycmp(m.V, cur) > 0 {
			sel[m.P] = m.V
		}
	}
	multi := 0
	for _, n := range count {
		if n >= 2 {
			multi++
		}
	}
	return sel, hitMissing, multi
}

// mycmp: version order used by the model; "" (the main module) is highest.
func mycmp(a, b string) int {
	if a == b {
		return 0
	}
	if a == "" {
		return 1
	}
	if b == "" {
		return -1
	}
	return refCompare(a, b)
}

func render(sel map[string]string) string {
	var s []string
	for p, v := range sel {
		s = append(s, p+"@"+v)
	}
	sort.Strings(s)
	return strings.Join(s, " ")
}

func listToSel(list []MV) (map[string]string, string) {
	sel := map[string]string{}
	for _, m := range list {
		if _, dup := sel[m.P]; dup {
			return nil, "module " + m.P + " appears twice in the build list"
		}
		sel[m.P] = m.V
	}
	return sel, ""
}

func runGraph(c GraphCase) (res evid.Result) {
	defer func() {
		if r := recover(); r != nil {
			res.Fail = fmt.Sprintf("panic: %v", r)
		}
	}()
	g := map[MV][]MV{}
	for _, e := range c.Edges {
		g[e.From] = e.To
	}
	missing := map[MV]bool{}
	for _, m := range c.Missing {
		missing[m] = true
	}
	want, wantErr, multi := model(g, missing, []MV{target})
	res.NonTrivial = multi > 0
	if wantErr {
		res.Classes = append(res.Classes, "missing-module")
	}
	if multi > 0 {
		res.Classes = append(res.Classes, "multi-version")
	} else {
		res.Classes = append(res.Classes, "single-version")
	}
	// permuted copy: same graph, requirement lists reversed/rotated per edge
	gp := map[MV][]MV{}
	for i, e := range c.Edges {
		to := append([]MV{}, e.To...)
		k := 0
		if i < len(c.Perm) {
			k = c.Perm[i]
		}
		if len(to) > 1 {
			k %= len(to)
			to = append(to[k:], to[:k]...)
			if c.Perm[i]%2 == 1 {
				for a, b := 0, len(to)-1; a < b; a, b = a+1, b-1 {
					to[a], to[b] = to[b], to[a]
				}
			}
		}
		gp[e.From] = to
	}
	var first string
	for rep, graph := range []map[MV][]MV{g, gp, g, gp, g} {
		seed := -1
		if rep < len(c.Sched) {
			seed = c.Sched[rep]
		}
		r := &reqs{g: graph, missing: missing, seed: seed}
		list, err := mvs.BuildList([]MV{target}, r)
		if wantErr {
			if err == nil {
				res.Fail = fmt.Sprintf("BuildList succeeded although the requirements of a reachable module cannot be loaded (missing %v); list %v", c.Missing, list)
				return
			}
			continue
		}
		if err != nil {
			res.Fail = fmt.Sprintf("BuildList failed: %v", err)
			return
		}
		if len(list) == 0 || list[0] != target {
			res.Fail = fmt.Sprintf("build list does not start with the main module: %v", list)
			return
		}
		got, bad := listToSel(list)
		if bad != "" {
			res.Fail = bad
			return
		}
		if render(got) != render(want) {
			res.Fail = fmt.Sprintf("BuildList (repetition %d) = %v\nmodel: %s", rep, list, render(want))
			return
		}
		for i := 2; i < len(list); i++ {
			if list[i-1].P > list[i].P {
				res.Fail = fmt.Sprintf("build list tail not sorted by path: %v", list)
				return
			}
		}
		s := fmt.Sprint(list)
		if rep == 0 {
			first = s
		} else if s != first {
			res.Fail = fmt.Sprintf("BuildList depends on requirement order or schedule:\n%s\n%s", first, s)
			return
		}
	}
	if wantErr {
		return
	}
	// sufficiency, stated directly: every requirement of every selected version is satisfied
	for p, v := range want {
		for _, d := range g[MV{p, v}] {
			if mycmp(want[d.P], d.V) < 0 {
				res.Fail = fmt.Sprintf("model inconsistency: %s@%s requires %v", p, v, d)
				return
			}
		}
	}
	r := &reqs{g: g, missing: missing, seed: -1}

	// Req: minimal requirement list that reproduces the build list
	req, err := mvs.Req(target, nil, r)
	if err != nil {
		res.Fail = fmt.Sprintf("Req failed: %v", err)
		return
	}
	g2 := map[MV][]MV{}
	for k, v := range g {
		g2[k] = v
	}
	g2[target] = req
	sel2, _, _ := model(g2, missing, []MV{target})
	if render(sel2) != render(want) {
		res.Fail = fmt.Sprintf("Req = %v does not reproduce the build list: %s vs %s", req, render(sel2), render(want))
		return
	}
	for i := range req {
		g2[target] = append(append([]MV{}, req[:i]...), req[i+1:]...)
		sel3, _, _ := model(g2, missing, []MV{target})
		if render(sel3) == render(want) {
			res.Fail = fmt.Sprintf("Req = %v is not minimal: %v can be dropped", req, req[i])
			return
		}
	}

	// incremental Graph API
	gr := mvs.NewGraph[MV](r, semver.Compare, g[target])
	done := map[MV]bool{}
	queue := append([]MV{}, g[target]...)
	for len(queue) > 0 {
		m := queue[0]
		queue = queue[1:]
		if done[m] || m.P == "main" {
			continue
		}
		done[m] = true
		gr.Require(m, g[m])
		queue = append(queue, g[m]...)
	}
	wantRoots, _, _ := model(g, missing, g[target])
	gsel := map[string]string{}
	for _, m := range gr.BuildList() {
		gsel[m.P] = m.V
	}
	delete(wantRoots, "main")
	delete(gsel, "main")
	if render(gsel) != render(wantRoots) {
		res.Fail = fmt.Sprintf("mvs.Graph.BuildList = %s, model %s", render(gsel), render(wantRoots))
		return
	}
	for p, v := range wantRoots {
		if gr.Selected(p) != v {
			res.Fail = fmt.Sprintf("mvs.Graph.Selected(%s) = %s, model %s", p, gr.Selected(p), v)
			return
		}
	}

	// Upgrade / Downgrade contracts
	r.allVers = map[string][]string{}
	for _, e := range c.Edges {
		if e.From.P != "main" {
			r.allVers[e.From.P] = append(r.allVers[e.From.P], e.From.V)
		}
	}
	for _, vs := range r.allVers {
		sort.Slice(vs, func(i, j int) bool { return refCompare(vs[i], vs[j]) < 0 })
	}
	closed := func(list []MV, what string, except map[string]bool) string {
		sel, bad := listToSel(list)
		if bad != "" {
			return what + ": " + bad
		}
		for _, m := range list[1:] {
			for _, d := range g[m] {
				if d.P == "main" {
					continue
				}
				if v, ok := sel[d.P]; !ok || mycmp(v, d.V) < 0 {
					return fmt.Sprintf("%s = %v: %v requires %v which is not satisfied", what, list, m, d)
				}
			}
		}
		return ""
	}
	upgradeLoadable := true
	if len(c.Upgrade) > 0 {
		g3 := map[MV][]MV{}
		for k, v := range g {
			g3[k] = v
		}
		g3[target] = append(append([]MV{}, g[target]...), c.Upgrade...)
		_, hit, _ := model(g3, missing, []MV{target})
		upgradeLoadable = !hit
	}
	if len(c.Upgrade) > 0 && !upgradeLoadable {
		if _, err := mvs.Upgrade(target, r, c.Upgrade...); err == nil {
			res.Fail = fmt.Sprintf("Upgrade(%v) succeeded although an unloadable module is reachable", c.Upgrade)
			return
		}
	}
	if len(c.Upgrade) > 0 && upgradeLoadable {
		list, err := mvs.Upgrade(target, r, c.Upgrade...)
		if err != nil {
			res.Fail = fmt.Sprintf("Upgrade: %v", err)
			return
		}
		if bad := closed(list, "Upgrade", nil); bad != "" {
			res.Fail = bad
			return
		}
		sel, _ := listToSel(list)
		for _, u := range c.Upgrade {
			if mycmp(sel[u.P], u.V) < 0 {
				res.Fail = fmt.Sprintf("Upgrade(%v) = %v: requested version not reached", c.Upgrade, list)
				return
			}
		}
		for p, v := range want {
			if mycmp(sel[p], v) < 0 {
				res.Fail = fmt.Sprintf("Upgrade(%v) = %v lowers %s below %s", c.Upgrade, list, p, v)
				return
			}
		}
		// minimality: exactly the build list of main + the upgrades
		g3 := map[MV][]MV{}
		for k, v := range g {
			g3[k] = v
		}
		g3[target] = append(append([]MV{}, g[target]...), c.Upgrade...)
		sel3, _, _ := model(g3, missing, []MV{target})
		if render(sel) != render(sel3) {
			res.Fail = fmt.Sprintf("Upgrade(%v) = %s, model %s", c.Upgrade, render(sel), render(sel3))
			return
		}
		res.Classes = append(res.Classes, "upgrade")
	}
	if len(c.Down) > 0 && c.Down[0].P != "main" {
		list, err := mvs.Downgrade(target, r, c.Down...)
		if err == nil {
			sel, bad := listToSel(list)
			if bad != "" {
				res.Fail = "Downgrade: " + bad
				return
			}
			for _, d := range c.Down {
				if v, ok := sel[d.P]; ok && mycmp(v, d.V) > 0 {
					res.Fail = fmt.Sprintf("Downgrade(%v) = %v keeps %s above the requested version", c.Down, list, d.P)
					return
				}
			}
			for p, v := range sel {
				if w, ok := want[p]; ok && mycmp(v, w) > 0 {
					res.Fail = fmt.Sprintf("Downgrade(%v) = %v raises %s above %s", c.Down, list, p, w)
					return
				}
			}
			if bad := closed(list, "Downgrade", nil); bad != "" {
				res.Fail = bad
				return
			}
			res.Classes = append(res.Classes, "downgrade")
		}
	}
	return
}

func TestMVS(t *testing.T) {
	evid.Main(t, evid.Check[GraphCase]{Name: "mvs", Gen: genGraph, Run: runGraph})
}

// ---- SemVer ----------------------------------------------------------------------

// reference implementation written from semver.org 2.0.0 sections 2, 9, 10, 11,
// plus the two documented extensions: mandatory "v" prefix, vMAJOR and
// vMAJOR.MINOR shorthands (without pre-release or build).
type refVer struct {
	nums [3]*big.Int
	pre  []string
	ok   bool
}

func isDigits(s string) bool {
	if s == "" {
		return false
	}
	for _, c := range s {
		if c < '0' || c > '9' {
			return false
		}
	}
	return true
}

func isIdent(s string) bool {
	if s == "" {
		return false
	}
	for _, c := range s {
		if !(c >= '0' && c <= '9' || c >= 'a' && c <= 'z' || c >= 'A' && c <= 'Z' || c == '-') {
			return false
		}
	}
	return true
}

func refParse(v string) refVer {
	if !strings.HasPrefix(v, "v") {
		return refVer{}
	}
	v = v[1:]
	build := ""
	hasBuild := false
	if i := strings.IndexByte(v, '+'); i >= 0 {
		build, v, hasBuild = v[i+1:], v[:i], true
	}
	pre := ""
	hasPre := false
	if i := strings.IndexByte(v, '-'); i >= 0 {
		pre, v, hasPre = v[i+1:], v[:i], true
	}
	parts := strings.Split(v, ".")
	if len(parts) > 3 || len(parts) < 1 {
		return refVer{}
	}
	if len(parts) < 3 && (hasPre || hasBuild) {
		return refVer{}
	}
	var r refVer
	for i := 0; i < 3; i++ {
		r.nums[i] = new(big.Int)
		if i < len(parts) {
			p := parts[i]
			if !isDigits(p) || (len(p) > 1 && p[0] == '0') {
				return refVer{}
			}
			r.nums[i].SetString(p, 10)
		}
	}
	if hasPre {
		for _, id := range strings.Split(pre, ".") {
			if !isIdent(id) || (isDigits(id) && len(id) > 1 && id[0] == '0') {
				return refVer{}
			}
			r.pre = append(r.pre, id)
		}
	}
	if hasBuild {
		for _, id := range strings.Split(build, ".") {
			if !isIdent(id) {
				return refVer{}
			}
		}
	}
	r.ok = true
	return r
}

func refCompare(a, b string) int {
	x, y := refParse(a), refParse(b)
	if !x.ok || !y.ok {
		switch {
		case !x.ok && !y.ok:
			return 0
		case !x.ok:
			return -1
		}
		return 1
	}
	for i := 0; i < 3; i++ {
		if c := x.nums[i].Cmp(y.nums[i]); c != 0 {
			return c
		}
	}
	switch {
	case len(x.pre) == 0 && len(y.pre) == 0:
		return 0
	case len(x.pre) == 0:
		return 1
	case len(y.pre) == 0:
		return -1
	}
	for i := 0; i < len(x.pre) && i < len(y.pre); i++ {
		p, q := x.pre[i], y.pre[i]
		if p == q {
			continue
		}
		pn, qn := isDigits(p), isDigits(q)
		switch {
		case pn && qn:
			pi, _ := new(big.Int).SetString(p, 10)
			qi, _ := new(big.Int).SetString(q, 10)
			return pi.Cmp(qi)
		case pn:
			return -1
		case qn:
			return 1
		}
		if p < q {
			return -1
		}
		return 1
	}
	switch {
	case len(x.pre) < len(y.pre):
		return -1
	case len(x.pre) > len(y.pre):
		return 1
	}
	return 0
}

type SemverCase struct{ A, B, C string }

func genVer(t *rapid.T) string {
	num := func() string {
		return rapid.SampledFrom([]string{"0", "1", "2", "9", "10", "11", "01", "00", "9999999999999999999999", "10000000000000000000000", "", "1a", "-1"}).Draw(t, "num")
	}
	s := "v" + num()
	if rapid.IntRange(0, 6).Draw(t, "short") > 0 {
		s += "." + num()
		if rapid.IntRange(0, 6).Draw(t, "short2") > 0 {
			s += "." + num()
		}
	}
	if rapid.IntRange(0, 2).Draw(t, "pre") > 0 {
		n := rapid.IntRange(1, 3).Draw(t, "npre")
		var ids []string
		for i := 0; i < n; i++ {
			ids = append(ids, rapid.SampledFrom([]string{"0", "1", "2", "9", "10", "01", "a", "alpha", "beta", "a-b", "-", "--", "1a", "a1", "A", "Z", "", "rc1", "rc", "x", "99999999999999999999", "100000000000000000000", "é", "_"}).Draw(t, "id"))
		}
		s += "-" + strings.Join(ids, ".")
	}
	if rapid.IntRange(0, 3).Draw(t, "build") == 0 {
		s += "+" + rapid.SampledFrom([]string{"b", "1", "b.1", "", "01", "a..b", "b-1", "+", "é"}).Draw(t, "bid")
	}
	switch rapid.IntRange(0, 30).Draw(t, "mangle") {
	case 0:
		s = s[1:]
	case 1:
		s = "V" + s[1:]
	case 2:
		s += "."
	case 3:
		s += ".4"
	case 4:
		s = " " + s
	}
	return s
}

func sign(x int) int {
	switch {
	case x < 0:
		return -1
	case x > 0:
		return 1
	}
	return 0
}

func runSemver(c SemverCase) (res evid.Result) {
	defer func() {
		if r := recover(); r != nil {
			res.Fail = fmt.Sprintf("panic: %v on %q %q %q", r, c.A, c.B, c.C)
		}
	}()
	nvalid := 0
	for _, v := range []string{c.A, c.B, c.C} {
		ref := refParse(v)
		if ref.ok {
			nvalid++
		}
		if semver.IsValid(v) != ref.ok {
			res.Fail = fmt.Sprintf("IsValid(%q) = %v, SemVer 2.0 grammar says %v", v, semver.IsValid(v), ref.ok)
			return
		}
		if semver.IsValid(v) != xsemver.IsValid(v) || semver.Canonical(v) != xsemver.Canonical(v) || semver.Major(v) != xsemver.Major(v) ||
			semver.MajorMinor(v) != xsemver.MajorMinor(v) || semver.Prerelease(v) != xsemver.Prerelease(v) || semver.Build(v) != xsemver.Build(v) {
			res.Fail = fmt.Sprintf("accessors on %q differ from golang.org/x/mod/semver", v)
			return
		}
		if ref.ok {
			cn := semver.Canonical(v)
			if semver.Compare(cn, v) != 0 || strings.Contains(cn, "+") || strings.Count(strings.SplitN(cn, "-", 2)[0], ".") != 2 {
				res.Fail = fmt.Sprintf("Canonical(%q) = %q", v, cn)
				return
			}
			if want := fmt.Sprintf("v%s", ref.nums[0]); semver.Major(v) != want {
				res.Fail = fmt.Sprintf("Major(%q) = %q want %q", v, semver.Major(v), want)
				return
			}
			if want := fmt.Sprintf("v%s.%s", ref.nums[0], ref.nums[1]); semver.MajorMinor(v) != want {
				res.Fail = fmt.Sprintf("MajorMinor(%q) = %q want %q", v, semver.MajorMinor(v), want)
				return
			}
			wantPre := ""
			if len(ref.pre) > 0 {
				wantPre = "-" + strings.Join(ref.pre, ".")
			}
			if semver.Prerelease(v) != wantPre {
				res.Fail = fmt.Sprintf("Prerelease(%q) = %q want %q", v, semver.Prerelease(v), wantPre)
				return
			}
		} else if semver.Canonical(v) != "" || semver.Major(v) != "" {
			res.Fail = fmt.Sprintf("Canonical/Major of invalid %q not empty", v)
			return
		}
	}
	pairs := [][2]string{{c.A, c.B}, {c.B, c.C}, {c.A, c.C}, {c.A, c.A}}
	for _, p := range pairs {
		got := semver.Compare(p[0], p[1])
		if sign(got) != refCompare(p[0], p[1]) {
			res.Fail = fmt.Sprintf("Compare(%q, %q) = %d, SemVer 2.0 precedence says %d", p[0], p[1], got, refCompare(p[0], p[1]))
			return
		}
		if got != xsemver.Compare(p[0], p[1]) {
			res.Fail = fmt.Sprintf("Compare(%q, %q) = %d, golang.org/x/mod/semver says %d", p[0], p[1], got, xsemver.Compare(p[0], p[1]))
			return
		}
		if sign(semver.Compare(p[1], p[0])) != -sign(got) {
			res.Fail = fmt.Sprintf("Compare is not antisymmetric on %q, %q", p[0], p[1])
			return
		}
		// module.Versions.Max consistent with Compare
		if refParse(p[0]).ok && refParse(p[1]).ok {
			m := module.Versions{}.Max(p[0], p[1])
			if (got > 0 && m != p[0]) || (got < 0 && m != p[1]) || (m != p[0] && m != p[1]) {
				res.Fail = fmt.Sprintf("Versions.Max(%q, %q) = %q but Compare = %d", p[0], p[1], m, got)
				return
			}
		}
	}
	ab, bc, ac := semver.Compare(c.A, c.B), semver.Compare(c.B, c.C), semver.Compare(c.A, c.C)
	if ab <= 0 && bc <= 0 && ac > 0 {
		res.Fail = fmt.Sprintf("Compare is not transitive on %q <= %q <= %q", c.A, c.B, c.C)
		return
	}
	if ab == 0 && bc == 0 && ac != 0 {
		res.Fail = fmt.Sprintf("Compare equality is not transitive on %q %q %q", c.A, c.B, c.C)
		return
	}
	// Sort agrees
	l := []string{c.A, c.B, c.C}
	semver.Sort(l)
	if semver.Compare(l[0], l[1]) > 0 || semver.Compare(l[1], l[2]) > 0 {
		res.Fail = fmt.Sprintf("Sort(%q %q %q) = %q not ordered", c.A, c.B, c.C, l)
		return
	}
	res.NonTrivial = nvalid >= 2 && (strings.Contains(c.A, "-") || strings.Contains(c.B, "-"))
	switch nvalid {
	case 3:
		res.Classes = []string{"all-valid"}
	case 0:
		res.Classes = []string{"all-invalid"}
	default:
		res.Classes = []string{"mixed-validity"}
	}
	return
}

func TestSemver(t *testing.T) {
	evid.Main(t, evid.Check[SemverCase]{Name: "semver", Gen: func(t *rapid.T) SemverCase {
		a, b, c := genVer(t), genVer(t), genVer(t)
		mutate := func(v string) string {
			// replace, drop or append one dot-separated component of the version core or pre-release
			core, rest, hasPre := strings.Cut(strings.TrimPrefix(v, "v"), "-")
			pre, build, hasBuild := strings.Cut(rest, "+")
			if !hasPre {
				core, build, hasBuild = strings.Cut(core, "+")
			}
			cs := strings.Split(core, ".")
			ps := strings.Split(pre, ".")
			ids := []string{"0", "1", "2", "9", "10", "99", "100", "18446744073709551615", "18446744073709551616", "99999999999999999999", "100000000000000000000", "a", "b", "alpha", "rc", "rc1", "A", "-", "a-", "1a", "x"}
			switch rapid.IntRange(0, 4).Draw(t, "mutk") {
			case 0:
				cs[rapid.IntRange(0, len(cs)-1).Draw(t, "mci")] = rapid.SampledFrom(ids[:11]).Draw(t, "mcv")
			case 1, 2:
				if !hasPre {
					hasPre, ps = true, []string{rapid.SampledFrom(ids).Draw(t, "mpv")}
				} else {
					ps[rapid.IntRange(0, len(ps)-1).Draw(t, "mpi")] = rapid.SampledFrom(ids).Draw(t, "mpv")
				}
			case 3:
				if hasPre {
					ps = append(ps, rapid.SampledFrom(ids).Draw(t, "mpv"))
				}
			case 4:
				if hasPre && len(ps) > 1 {
					ps = ps[:len(ps)-1]
				} else {
					hasPre = false
				}
			}
			out := "v" + strings.Join(cs, ".")
			if hasPre {
				out += "-" + strings.Join(ps, ".")
			}
			if hasBuild {
				out += "+" + build
			}
			return out
		}
		if rapid.Bool().Draw(t, "neighbours") {
			b = mutate(a)
			c = mutate(b)
		}
		switch rapid.IntRange(0, 9).Draw(t, "rel") {
		case 0:
			b = a
		case 1: // b = a with another build or without pre-release
			if i := strings.IndexByte(a, '+'); i >= 0 {
				b = a[:i]
			} else {
				b = a + "+x"
			}
		case 2:
			if i := strings.IndexByte(a, '-'); i >= 0 {
				b = a[:i]
			}
		}
		return SemverCase{a, b, c}
	}, Run: runSemver})
}

// ---- pruned module graph through modrequirements (uses par.Queue) -------------

type ModReqCase struct {
	Roots []MV            // requirements of the main module
	Deps  map[string][]MV // "path@version" -> requirements in its module file
	Procs int             // GOMAXPROCS while loading (width of the load queue)
	Delay int             // registry latency seed
}

type fakeRegistry struct {
	c     ModReqCase
	calls atomic.Int32
}

func (r *fakeRegistry) ModFile(ctx context.Context, mv module.Version) (*modfile.File, error) {
	d := (len(mv.String())*7 + r.c.Delay) % 4
	time.Sleep(time.Duration(d) * 200 * time.Microsecond)
	defer r.calls.Add(1)
	var sb strings.Builder
	fmt.Fprintf(&sb, "module: %q\nlanguage: version: \"v0.8.0\"\n", mv.Path())
	for _, d := range r.c.Deps[mv.Path()+"@"+mv.Version()] {
		fmt.Fprintf(&sb, "deps: %q: v: %q\n", d.P, d.V)
	}
	return modfile.Parse([]byte(sb.String()), mv.String())
}

func genModReq(t *rapid.T) ModReqCase {
	nm := rapid.IntRange(2, 7).Draw(t, "nmods")
	vers := []string{"v0.1.0", "v0.2.0", "v0.2.1-alpha", "v0.3.0"}
	c := ModReqCase{Deps: map[string][]MV{}, Procs: rapid.SampledFrom([]int{1, 1, 2, 3, 8}).Draw(t, "procs"), Delay: rapid.IntRange(0, 50).Draw(t, "delay")}
	path := func(i int) string { return fmt.Sprintf("m%d.com@v0", i) }
	seen := map[string]bool{}
	nr := rapid.IntRange(1, nm).Draw(t, "nroots")
	for i := 0; i < nr; i++ {
		p := path(rapid.IntRange(0, nm-1).Draw(t, "root"))
		if seen[p] {
			continue
		}
		seen[p] = true
		c.Roots = append(c.Roots, MV{p, rapid.SampledFrom(vers).Draw(t, "rootv")})
	}
	for i := 0; i < nm; i++ {
		for _, v := range vers {
			n := rapid.IntRange(0, 3).Draw(t, "ndeps")
			ds := map[string]bool{}
			for j := 0; j < n; j++ {
				q := path(rapid.IntRange(0, nm-1).Draw(t, "dep"))
				if q == path(i) || ds[q] {
					continue
				}
				ds[q] = true
				c.Deps[path(i)+"@"+v] = append(c.Deps[path(i)+"@"+v], MV{q, rapid.SampledFrom(vers).Draw(t, "depv")})
			}
		}
	}
	return c
}

func runModReq(c ModReqCase) (res evid.Result) {
	defer func() {
		if r := recover(); r != nil {
			res.Fail = fmt.Sprintf("panic: %v", r)
		}
	}()
	if c.Procs < 1 {
		c.Procs = 1
	}
	defer runtime.GOMAXPROCS(runtime.GOMAXPROCS(c.Procs))
	reg := &fakeRegistry{c: c}
	var roots []module.Version
	for _, r := range c.Roots {
		roots = append(roots, module.MustNewVersion(r.P, r.V))
	}
	module.Sort(roots)
	rs := modrequirements.NewRequirements("main.org@v0", reg, roots, nil)
	mg, err := rs.Graph(context.Background())
	if err != nil {
		res.Fail = fmt.Sprintf("Requirements.Graph: %v", err)
		return
	}
	loaded := int(reg.calls.Load())
	// model: pruned graph = roots plus the direct requirements of every root
	want := map[string]string{}
	up := func(m MV) {
		if cur, ok := want[m.P]; !ok || refCompare(m.V, cur) > 0 {
			want[m.P] = m.V
		}
	}
	multi := false
	for _, r := range c.Roots {
		up(r)
	}
	for _, r := range c.Roots {
		for _, d := range c.Deps[r.P+"@"+r.V] {
			if _, ok := want[d.P]; ok && want[d.P] != d.V {
				multi = true
			}
			up(d)
		}
	}
	if loaded != len(c.Roots) {
		res.Fail = fmt.Sprintf("Graph returned after loading %d of %d root module files (GOMAXPROCS=%d)", loaded, len(c.Roots), c.Procs)
		return
	}
	got := map[string]string{}
	for _, m := range mg.BuildList() {
		if m.Path() != "main.org@v0" {
			got[m.Path()] = m.Version()
		}
	}
	if render(got) != render(want) {
		res.Fail = fmt.Sprintf("pruned module graph selects %s, model %s (GOMAXPROCS=%d)", render(got), render(want), c.Procs)
		return
	}
	for p, v := range want {
		if mg.Selected(p) != v {
			res.Fail = fmt.Sprintf("Selected(%s) = %s, model %s", p, mg.Selected(p), v)
			return
		}
	}
	res.NonTrivial = multi
	res.Classes = []string{fmt.Sprintf("procs%d", c.Procs)}
	return
}

func TestModReq(t *testing.T) {
	evid.Main(t, evid.Check[ModReqCase]{Name: "modreq", Gen: genModReq, Run: runModReq})
}

// ---- par.Queue / par.Work / par.Cache invariants -------------------------------------

type ParCase struct {
	Width  int
	Tasks  []int // duration seed per top-level task
	Nested []int // for task i: number of tasks it adds itself
	Keys   []int // keys requested from the cache, in order, by concurrent callers
}

func runPar(c ParCase) (res evid.Result) {
	defer func() {
		if r := recover(); r != nil {
			res.Fail = fmt.Sprintf("panic: %v", r)
		}
	}()
	if c.Width < 1 {
		c.Width = 1
	}
	q := par.NewQueue(c.Width)
	var active, maxActive, done, added atomic.Int32
	var run func(d int, nested int)
	run = func(d int, nested int) {
		a := active.Add(1)
		for {
			m := maxActive.Load()
			if a <= m || maxActive.CompareAndSwap(m, a) {
				break
			}
		}
		for i := 0; i < d%3; i++ {
			runtime.Gosched()
		}
		if d%5 == 0 {
			time.Sleep(time.Duration(d%4) * 50 * time.Microsecond)
		}
		for i := 0; i < nested; i++ {
			added.Add(1)
			dd := d + i + 1
			q.Add(func() { run(dd, 0) })
		}
		active.Add(-1)
		done.Add(1)
	}
	for i, d := range c.Tasks {
		n := 0
		if i < len(c.Nested) {
			n = c.Nested[i]
		}
		added.Add(1)
		q.Add(func() { run(d, n) })
	}
	<-q.Idle()
	if done.Load() != added.Load() {
		res.Fail = fmt.Sprintf("Queue(width %d).Idle fired with %d of %d tasks finished", c.Width, done.Load(), added.Load())
		return
	}
	if int(maxActive.Load()) > c.Width {
		res.Fail = fmt.Sprintf("Queue(width %d) ran %d tasks at once", c.Width, maxActive.Load())
		return
	}
	// Work: every added item is processed exactly once, also items added while running
	var w par.Work[int]
	var mu sync.Mutex
	count := map[int]int{}
	for _, d := range c.Tasks {
		w.Add(d % 7)
	}
	w.Do(c.Width, func(item int) {
		mu.Lock()
		count[item]++
		mu.Unlock()
		if item < 20 {
			w.Add(item + 7)
		}
	})
	for _, d := range c.Tasks {
		for it := d % 7; it < 27; it += 7 {
			if count[it] != 1 {
				res.Fail = fmt.Sprintf("Work.Do(%d) processed item %d %d times (items %v)", c.Width, it, count[it], c.Tasks)
				return
			}
		}
	}
	// Cache: the function runs once per key, every caller gets its value
	var cache par.Cache[int, int]
	var calls sync.Map
	var wg sync.WaitGroup
	bad := atomic.Value{}
	for _, k := range c.Keys {
		wg.Add(1)
		go func() {
			defer wg.Done()
			v := cache.Do(k, func() int {
				n, _ := calls.LoadOrStore(k, new(atomic.Int32))
				n.(*atomic.Int32).Add(1)
				runtime.Gosched()
				return k * 3
			})
			if v != k*3 {
				bad.Store(fmt.Sprintf("Cache.Do(%d) = %d", k, v))
			}
		}()
	}
	wg.Wait()
	if b := bad.Load(); b != nil {
		res.Fail = b.(string)
		return
	}
	calls.Range(func(k, v any) bool {
		if n := v.(*atomic.Int32).Load(); n != 1 {
			res.Fail = fmt.Sprintf("Cache.Do ran the function for key %v %d times", k, n)
		}
		return true
	})
	res.NonTrivial = len(c.Tasks) > c.Width
	res.Classes = []string{fmt.Sprintf("width%d", c.Width)}
	return
}

func TestPar(t *testing.T) {
	evid.Main(t, evid.Check[ParCase]{Name: "par", Gen: func(t *rapid.T) ParCase {
		return ParCase{
			Width:  rapid.IntRange(1, 4).Draw(t, "width"),
			Tasks:  rapid.SliceOfN(rapid.IntRange(0, 40), 0, 12).Draw(t, "tasks"),
			Nested: rapid.SliceOfN(rapid.IntRange(0, 3), 0, 12).Draw(t, "nested"),
			Keys:   rapid.SliceOfN(rapid.IntRange(0, 4), 0, 16).Draw(t, "keys"),
		}
	}, Run: runPar})
}
