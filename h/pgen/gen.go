package pgen

import (
	"fmt"
	"sort"
	"strings"

	"pgregory.net/rapid"
)

// Package pgen is the witness-first typed program generator (DESIGN.md 3.1):
// a random data tree (the witness) is drawn first, then every field receives
// 1-3 conjunct declarations each of which admits the witness value.
//
// Tiers: 0 = data, types, bounds, references, arithmetic/interpolation on
// concrete fields, lists, nested structs, several conjuncts per field;
// 1 += un-nested disjunctions and *w | T defaults; 2 += close(), optional
// fields, patterns, ..., embedded literals.

// ---- witness
type W struct {
	kind   string // int string bool struct list
	n      int
	s      string
	b      bool
	fields []WF
	elems  []*W
}
type WF struct {
	label string
	w     *W
}

func (w *W) lit() string {
	switch w.kind {
	case "int":
		return fmt.Sprint(w.n)
	case "string":
		return fmt.Sprintf("%q", w.s)
	case "bool":
		return fmt.Sprint(w.b)
	}
	panic("lit of " + w.kind)
}

func (w *W) same(o *W) bool {
	if w.kind != o.kind {
		return false
	}
	switch w.kind {
	case "int":
		return w.n == o.n
	case "string":
		return w.s == o.s
	case "bool":
		return w.b == o.b
	}
	return false
}

var labels = []string{"a", "b", "c", "d", "e"}

func genW(t *rapid.T, depth int) *W {
	k := rapid.IntRange(0, 6).Draw(t, "wk")
	if depth <= 0 && k >= 5 {
		k %= 5
	}
	switch k {
	case 0, 1:
		return &W{kind: "int", n: rapid.IntRange(-2, 6).Draw(t, "n")}
	case 2, 3:
		return &W{kind: "string", s: rapid.SampledFrom([]string{"a", "b", "ab", "x"}).Draw(t, "s")}
	case 4:
		return &W{kind: "bool", b: rapid.Bool().Draw(t, "b")}
	case 5:
		return GenStructW(t, depth-1)
	default:
		n := rapid.IntRange(0, 3).Draw(t, "ln")
		w := &W{kind: "list"}
		for i := 0; i < n; i++ {
			w.elems = append(w.elems, genW(t, depth-1))
		}
		return w
	}
}

func GenStructW(t *rapid.T, depth int) *W {
	w := &W{kind: "struct"}
	n := rapid.IntRange(1, 4).Draw(t, "nf")
	perm := rapid.Permutation(labels).Draw(t, "lp")
	ls := append([]string{}, perm[:n]...)
	sort.Strings(ls)
	for _, l := range ls {
		w.fields = append(w.fields, WF{l, genW(t, depth)})
	}
	return w
}

// ---- program AST
type Term struct {
	Text   string
	Struct *Struct
	List   []*Expr
	Open   string // list ellipsis suffix e.g. "..." or "...int"
	Disj   []*Expr
	Marks  []bool
	Close  bool // wrap struct in close()
}
type Expr struct{ Conj []*Term }
type Decl struct {
	Kind  string // field embed ellipsis pattern
	Label string
	Mark  string
	Val   *Expr
}
type Struct struct{ Decls []*Decl }

type scopeEnt struct {
	name string
	w    *W
}
type scope struct {
	conc   bool
	parent *scope
	ents   []scopeEnt // regular fields of this struct (witnessed)
	cur    string     // label of field being generated
	noRefs bool
}

func (s *scope) visible() []scopeEnt {
	var r []scopeEnt
	shadow := map[string]bool{}
	for x := s; x != nil; x = x.parent {
		if x.noRefs {
			return r
		}
		for _, e := range x.ents {
			if !shadow[e.name] && e.name < x.cur {
				r = append(r, e)
			}
		}
		for _, e := range x.ents {
			shadow[e.name] = true
		}
	}
	return r
}

// Feature switches (beyond the tier): each can be enabled separately so that a
// construct is only registered once the unchanged tree is silent on it.
const (
	FRefTypes   = 1 << iota // types through references to top-level definitions (#I: int ...)
	FListComp               // list comprehension terms [for v in [...] {v}]
	FConflict               // one deliberately conflicting conjunct (error status must agree)
	FStructDisj             // struct disjunctions with a discriminator field
	FSelectors              // references through selectors (e.g. x.a), wrapped refs (ref & T, {ref})
	FDerived                // extra fields x1, x2 holding (possibly incomplete) arithmetic over int fields
)

// Prelude is declared at the top of every program that uses FRefTypes.
const Prelude = "#I: int, #S: string, #N: number, #B: bool"

type G struct {
	F int // feature switches
	T     *rapid.T
	Tier  int
	defs  []string // top-level definitions text
	ndefs int
	inDisj int
}


func tx(s string) *Term { return &Term{Text: s} }

// admitting term for scalar witness
func (g *G) scalarTerm(w *W, sc *scope, concrete bool) *Term {
	t := g.T
	if concrete {
		k := rapid.IntRange(0, 5).Draw(t, "ck")
		switch {
		case k == 0 || k == 1:
			return tx(w.lit())
		case k == 2: // ref
			var cands []string
			for _, e := range sc.visible() {
				if e.w.same(w) {
					cands = append(cands, e.name)
				}
			}
			if g.F&FSelectors != 0 && g.inDisj == 0 {
				// not inside a disjunct: the selected field may be incomplete (its struct may be an
				// unresolved disjunction), and an incomplete operand inside a disjunct is order
				// dependent on the unchanged tree (known finding F26)
				for _, e := range sc.visible() {
					if e.w.kind == "struct" {
						for _, f := range e.w.fields {
							if f.w.same(w) {
								cands = append(cands, e.name+"."+f.label)
							}
						}
					}
				}
			}
			if len(cands) > 0 {
				r := rapid.SampledFrom(cands).Draw(t, "ref")
				if g.F&FSelectors != 0 {
					switch rapid.IntRange(0, 4).Draw(t, "refwrap") {
					case 0:
						return tx("(" + r + " & " + g.typeTerm(w).Text + ")")
					case 1:
						return tx("{" + r + "}")
					case 2:
						return tx("(" + r + " & _)")
					}
				}
				return tx(r)
			}
			return tx(w.lit())
		case k == 3 && sc.conc: // arithmetic / interpolation
			switch w.kind {
			case "int":
				var cands []scopeEnt
				for _, e := range sc.visible() {
					if e.w.kind == "int" {
						cands = append(cands, e)
					}
				}
				if len(cands) > 0 {
					e := rapid.SampledFrom(cands).Draw(t, "aref")
					d := w.n - e.w.n
					if d >= 0 {
						return tx(fmt.Sprintf("(%s + %d)", e.name, d))
					}
					return tx(fmt.Sprintf("(%s - %d)", e.name, -d))
				}
				return tx(fmt.Sprintf("(%d + 1)", w.n-1))
			case "string":
				for _, e := range sc.visible() {
					if e.w.kind == "string" && strings.HasPrefix(w.s, e.w.s) {
						return tx(fmt.Sprintf("\"\\(%s)%s\"", e.name, w.s[len(e.w.s):]))
					}
				}
			}
			return tx(w.lit())
		case k == 4 && g.Tier >= 1 && g.inDisj == 0: // default disjunction
			other := g.typeTerm(w).Text
			d := &Term{Disj: []*Expr{{Conj: []*Term{tx(w.lit())}}, {Conj: []*Term{tx(other)}}}, Marks: []bool{true, false}}
			if rapid.Bool().Draw(t, "dswap") {
				d.Disj[0], d.Disj[1] = d.Disj[1], d.Disj[0]
				d.Marks[0], d.Marks[1] = d.Marks[1], d.Marks[0]
			}
			return d
		default:
			return tx(w.lit())
		}
	}
	k := rapid.IntRange(0, 5).Draw(t, "nk")
	switch {
	case k <= 1:
		return g.typeTerm(w)
	case k == 2:
		return g.boundTerm(w)
	case k == 3 && g.Tier >= 1 && g.inDisj == 0: // plain disjunction containing an admitting disjunct
		g.inDisj++
		defer func() { g.inDisj-- }()
		n := rapid.IntRange(2, 3).Draw(t, "dn")
		pos := rapid.IntRange(0, n-1).Draw(t, "dpos")
		d := &Term{}
		for i := 0; i < n; i++ {
			if i == pos {
				d.Disj = append(d.Disj, &Expr{Conj: []*Term{g.scalarTerm(w, sc, rapid.Bool().Draw(t, "dconc"))}})
			} else {
				var pool []string
				switch w.kind {
				case "int":
					pool = []string{"\"q\"", "true", "null", "string", "bool"}
				case "string":
					pool = []string{"7", "true", "null", "int", "bool"}
				default:
					pool = []string{"7", "\"q\"", "null", "int", "string"}
				}
				// pairwise different kinds: pick by index parity
				if i%2 == 0 {
					pool = pool[:2]
				} else {
					pool = pool[2:3]
				}
				d.Disj = append(d.Disj, &Expr{Conj: []*Term{tx(rapid.SampledFrom(pool).Draw(t, "dother"))}})
			}
			d.Marks = append(d.Marks, false)
		}
		return d
	case k == 4:
		return tx("_")
	default:
		return g.typeTerm(w)
	}
}

func (g *G) typeTerm(w *W) *Term {
	if g.F&FRefTypes != 0 && g.inDisj == 0 && rapid.IntRange(0, 3).Draw(g.T, "reftype") == 0 {
		switch w.kind {
		case "int":
			return tx(rapid.SampledFrom([]string{"#I", "#N"}).Draw(g.T, "rty"))
		case "string":
			return tx("#S")
		case "bool":
			return tx("#B")
		}
	}
	switch w.kind {
	case "int":
		return tx(rapid.SampledFrom([]string{"int", "number", "int"}).Draw(g.T, "ity"))
	case "string":
		return tx("string")
	case "bool":
		return tx("bool")
	}
	return tx("_")
}

func (g *G) boundTerm(w *W) *Term {
	t := g.T
	switch w.kind {
	case "int":
		switch rapid.IntRange(0, 7).Draw(t, "bk") {
		case 5:
			return tx(fmt.Sprintf(">%d", w.n-1-rapid.IntRange(0, 1).Draw(t, "bd")))
		case 6: // a pair that coincides with a predeclared sized range
			if w.n >= 0 {
				return tx(rapid.SampledFrom([]string{"(>=0 & <=255)", "(>=0 & <=65535)", "(>=0 & <=255.0)", "(>=0.0 & <=65535)"}).Draw(t, "sized"))
			}
			return tx(rapid.SampledFrom([]string{"(>=-128 & <=127)", "(>=-32768 & <=32767)", "(>=-128.0 & <=127)"}).Draw(t, "sizedn"))
		case 7:
			return tx(fmt.Sprintf("(>%d & < %d)", w.n-1-rapid.IntRange(0, 1).Draw(t, "bd"), w.n+rapid.IntRange(1, 4).Draw(t, "bd2")))
		case 0:
			return tx(fmt.Sprintf(">=%d", w.n-rapid.IntRange(0, 2).Draw(t, "bd")))
		case 1:
			return tx(fmt.Sprintf("< %d", w.n+rapid.IntRange(1, 3).Draw(t, "bd")))
		case 2:
			return tx(fmt.Sprintf("!=%d", w.n+rapid.IntRange(1, 3).Draw(t, "bd")))
		case 3:
			return tx(fmt.Sprintf(">%d.5", w.n-1))
		default:
			return tx(fmt.Sprintf("<=%d", w.n))
		}
	case "string":
		switch rapid.IntRange(0, 2).Draw(t, "sbk") {
		case 0:
			return tx(fmt.Sprintf("=~\"^%s\"", w.s[:1]))
		case 1:
			return tx("!=\"zz\"")
		default:
			return tx(fmt.Sprintf(">=%q", w.s))
		}
	}
	return g.typeTerm(w)
}

// expression admitting witness w. If needConcrete, the expression alone yields w concretely.
func (g *G) expr(w *W, sc *scope, needConcrete bool) *Expr {
	t := g.T
	switch w.kind {
	case "int", "string", "bool":
		e := &Expr{}
		n := rapid.IntRange(1, 2).Draw(t, "nconj")
		concAt := -1
		if needConcrete {
			concAt = rapid.IntRange(0, n-1).Draw(t, "concAt")
		}
		for i := 0; i < n; i++ {
			e.Conj = append(e.Conj, g.scalarTerm(w, sc, i == concAt))
		}
		return e
	case "list":
		tm := &Term{List: []*Expr{}}
		for _, el := range w.elems {
			tm.List = append(tm.List, g.expr(el, sc, needConcrete))
		}
		if !needConcrete && rapid.Bool().Draw(t, "lopen") {
			tm.Open = "..."
		}
		if g.F&FListComp != 0 && tm.Open == "" && len(tm.List) > 0 && rapid.IntRange(0, 3).Draw(t, "lcomp") == 0 {
			// the same closed list written as a comprehension
			var parts []string
			for _, x := range tm.List {
				parts = append(parts, x.String())
			}
			tm = tx("[for v in [" + strings.Join(parts, ", ") + "] {v}]")
		}
		e := &Expr{Conj: []*Term{tm}}
		if rapid.IntRange(0, 3).Draw(t, "lty") == 0 {
			e.Conj = append(e.Conj, tx("[...]"))
		}
		return e
	default:
		return g.structExpr(w, sc, needConcrete)
	}
}

// struct expression(s) admitting w; returns conj of struct terms
func (g *G) structExpr(w *W, sc *scope, needConcrete bool) *Expr {
	t := g.T
	e := &Expr{}
	n := 1
	if rapid.IntRange(0, 2).Draw(t, "sconj") == 0 {
		n = 2
	}
	full := rapid.IntRange(0, n-1).Draw(t, "sfull")
	if g.F&FStructDisj != 0 && g.Tier >= 1 && g.inDisj == 0 && rapid.IntRange(0, 4).Draw(t, "sdisj") == 0 {
		if d := g.structDisj(w); d != nil {
			e.Conj = append(e.Conj, d)
		}
	}
	for i := 0; i < n; i++ {
		st := g.StructLit(w, sc, needConcrete && i == full, i == full)
		tm := &Term{Struct: st}
		if g.Tier >= 2 && i == full && g.inDisj == 0 && rapid.IntRange(0, 4).Draw(t, "close") == 0 {
			tm.Close = true
		}
		e.Conj = append(e.Conj, tm)
	}
	return e
}

// structLit: literal admitting witness struct w. If all, every witness field is declared (needed for closedness / concreteness).
func (g *G) StructLit(w *W, parent *scope, needConcrete, all bool) *Struct {
	t := g.T
	st := &Struct{}
	sc := &scope{parent: parent, conc: needConcrete && (parent == nil || parent.conc || parent.noRefs)}
	for _, f := range w.fields {
		sc.ents = append(sc.ents, scopeEnt{f.label, f.w})
	}
	for _, f := range w.fields {
		nd := 1
		if !all && rapid.IntRange(0, 2).Draw(t, "skip") == 0 {
			continue
		}
		if rapid.IntRange(0, 2).Draw(t, "ndecl") == 0 {
			nd = 2
		}
		conc := rapid.IntRange(0, nd-1).Draw(t, "cdecl")
		for i := 0; i < nd; i++ {
			fs := *sc
			fs.cur = f.label
			mark := ""
			nc := needConcrete && i == conc
			if !nc && g.Tier >= 2 && rapid.IntRange(0, 5).Draw(t, "opt") == 0 {
				mark = "?"
			}
			st.Decls = append(st.Decls, &Decl{Kind: "field", Label: f.label, Mark: mark, Val: g.expr(f.w, &fs, nc)})
		}
	}
	if g.Tier >= 2 {
		// optional field for an absent label
		if rapid.IntRange(0, 3).Draw(t, "optabs") == 0 {
			st.Decls = append(st.Decls, &Decl{Kind: "field", Label: "z", Mark: "?", Val: &Expr{Conj: []*Term{tx(rapid.SampledFrom([]string{"int", "string", "1", "{a: int}"}).Draw(t, "ov"))}}})
		}
		// pattern admitting everything of a kind
		if rapid.IntRange(0, 4).Draw(t, "pat") == 0 {
			st.Decls = append(st.Decls, &Decl{Kind: "pattern", Label: "[string]", Val: &Expr{Conj: []*Term{tx("_")}}})
		}
		if rapid.IntRange(0, 5).Draw(t, "ell") == 0 {
			st.Decls = append(st.Decls, &Decl{Kind: "ellipsis"})
		}
		// embedding of a sub-literal (fields moved into an embedded struct)
		if rapid.IntRange(0, 5).Draw(t, "emb") == 0 && len(w.fields) > 0 {
			ns := &scope{parent: parent, noRefs: true}
			sub := &W{kind: "struct", fields: w.fields[:1]}
			st.Decls = append(st.Decls, &Decl{Kind: "embed", Val: &Expr{Conj: []*Term{{Struct: g.StructLit(sub, ns, false, true)}}}})
		}
	}
	return st
}

// ---- printing
func (e *Expr) String() string {
	var s []string
	for _, c := range e.Conj {
		s = append(s, c.String())
	}
	if len(s) == 1 {
		return s[0]
	}
	return "(" + strings.Join(s, " & ") + ")"
}
func (tm *Term) String() string {
	switch {
	case tm.Struct != nil:
		if tm.Close {
			return "close(" + tm.Struct.String() + ")"
		}
		return tm.Struct.String()
	case tm.List != nil:
		var s []string
		for _, e := range tm.List {
			s = append(s, e.String())
		}
		if tm.Open != "" {
			s = append(s, tm.Open)
		}
		return "[" + strings.Join(s, ", ") + "]"
	case tm.Disj != nil:
		var s []string
		for i, e := range tm.Disj {
			x := e.String()
			if tm.Marks[i] {
				x = "*" + x
			}
			s = append(s, x)
		}
		return "(" + strings.Join(s, " | ") + ")"
	}
	return tm.Text
}
func (st *Struct) String() string { return "{" + st.Body() + "}" }
func (st *Struct) Body() string {
	var s []string
	for _, d := range st.Decls {
		switch d.Kind {
		case "field", "pattern":
			s = append(s, d.Label+d.Mark+": "+d.Val.String())
		case "embed":
			s = append(s, d.Val.String())
		case "ellipsis":
			s = append(s, "...")
		}
	}
	return strings.Join(s, ", ")
}

// ---- rearrangement
func permExpr(t *rapid.T, e *Expr) *Expr {
	c := &Expr{}
	for _, tm := range e.Conj {
		c.Conj = append(c.Conj, permTerm(t, tm))
	}
	if len(c.Conj) > 1 {
		c.Conj = rapid.Permutation(c.Conj).Draw(t, "pconj")
	}
	if rapid.IntRange(0, 6).Draw(t, "dup") == 0 {
		c.Conj = append(c.Conj, c.Conj[0])
	}
	if rapid.IntRange(0, 6).Draw(t, "top") == 0 {
		c.Conj = append(c.Conj, tx("_"))
	}
	return c
}
func permTerm(t *rapid.T, tm *Term) *Term {
	c := *tm
	if tm.Struct != nil {
		c.Struct = PermStruct(t, tm.Struct)
		if !tm.Close && rapid.IntRange(0, 7).Draw(t, "wrap") == 0 {
			// wrap the struct in {...} as a sole embedding
			c.Struct = &Struct{Decls: []*Decl{{Kind: "embed", Val: &Expr{Conj: []*Term{{Struct: c.Struct}}}}}}
		}
	}
	if tm.List != nil {
		c.List = []*Expr{}
		for _, e := range tm.List {
			c.List = append(c.List, permExpr(t, e))
		}
	}
	if tm.Disj != nil {
		c.Disj = nil
		for _, e := range tm.Disj {
			c.Disj = append(c.Disj, permExpr(t, e))
		}
	}
	return &c
}
func PermStruct(t *rapid.T, st *Struct) *Struct {
	c := &Struct{}
	for _, d := range st.Decls {
		dc := *d
		if d.Val != nil {
			dc.Val = permExpr(t, d.Val)
		}
		// split x: a & b into two declarations
		if dc.Kind == "field" && dc.Mark == "" && len(dc.Val.Conj) > 1 && rapid.IntRange(0, 3).Draw(t, "split") == 0 {
			d2 := dc
			d2.Val = &Expr{Conj: dc.Val.Conj[1:]}
			dc.Val = &Expr{Conj: dc.Val.Conj[:1]}
			c.Decls = append(c.Decls, &d2)
		}
		c.Decls = append(c.Decls, &dc)
	}
	if len(c.Decls) > 1 {
		c.Decls = rapid.Permutation(c.Decls).Draw(t, "pdecl")
	}
	return c
}

// Features reports which constructs a program text uses (for evidence classes).
func Features(src string) []string {
	var f []string
	if strings.Contains(src, " | ") {
		f = append(f, "disjunction")
	}
	if strings.Contains(src, "*") {
		f = append(f, "default")
	}
	if strings.Contains(src, "close(") || strings.Contains(src, "...") {
		f = append(f, "closedness")
	}
	if strings.Contains(src, "[string]") {
		f = append(f, "pattern")
	}
	if strings.Contains(src, "?:") {
		f = append(f, "optional")
	}
	if strings.Contains(src, " & ") {
		f = append(f, "conjunction")
	}
	if strings.Contains(src, "\\(") || strings.Contains(src, " + ") || strings.Contains(src, " - ") {
		f = append(f, "computed")
	}
	return f
}

// SplitTop partitions the top-level declarations of st over n files.
func SplitTop(t *rapid.T, st *Struct, n int) []string {
	bodies := make([]*Struct, n)
	for i := range bodies {
		bodies[i] = &Struct{}
	}
	for _, d := range st.Decls {
		i := rapid.IntRange(0, n-1).Draw(t, "file")
		bodies[i].Decls = append(bodies[i].Decls, d)
	}
	var out []string
	for _, b := range bodies {
		out = append(out, b.Body())
	}
	return out
}

// StructPaths lists the paths of struct-valued fields of the witness (candidates for printing a sub-value).
func StructPaths(w *W) []string {
	var out []string
	var rec func(w *W, prefix string)
	rec = func(w *W, prefix string) {
		for _, f := range w.fields {
			p := f.label
			if prefix != "" {
				p = prefix + "." + f.label
			}
			if f.w.kind == "struct" {
				out = append(out, p)
				rec(f.w, p)
			}
		}
	}
	rec(w, "")
	return out
}

// SameLabelNested reports whether some field has a descendant field with the same label as itself or one of its ancestors.
func SameLabelNested(w *W, outer map[string]bool) bool {
	for _, f := range w.fields {
		if outer[f.label] && f.w.kind != "" {
			return true
		}
	}
	for _, f := range w.fields {
		if f.w.kind == "struct" {
			o := map[string]bool{}
			for k := range outer {
				o[k] = true
			}
			for _, g := range w.fields {
				o[g.label] = true
			}
			if SameLabelNested(f.w, o) {
				return true
			}
		}
		if f.w.kind == "list" {
			for _, e := range f.w.elems {
				if e.kind == "struct" {
					o := map[string]bool{}
					for k := range outer {
						o[k] = true
					}
					for _, g := range w.fields {
						o[g.label] = true
					}
					if SameLabelNested(e, o) {
						return true
					}
				}
			}
		}
	}
	return false
}
