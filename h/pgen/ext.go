package pgen

import (
	"fmt"
	"strings"

	"pgregory.net/rapid"
)

// structDisj returns a disjunction of struct literals told apart by a
// discriminator field: one disjunct admits w, the others pin the discriminator
// to another value. nil if w has no scalar field to discriminate on.
func (g *G) structDisj(w *W) *Term {
	t := g.T
	var disc []WF
	for _, f := range w.fields {
		if f.w.kind == "int" || f.w.kind == "string" {
			disc = append(disc, f)
		}
	}
	if len(disc) == 0 {
		return nil
	}
	d := disc[rapid.IntRange(0, len(disc)-1).Draw(t, "disc")]
	g.inDisj++
	defer func() { g.inDisj-- }()
	ns := &scope{noRefs: true}
	mk := func(lit string, admit bool) *Expr {
		st := &Struct{Decls: []*Decl{{Kind: "field", Label: d.label, Val: &Expr{Conj: []*Term{tx(lit)}}}}}
		for _, f := range w.fields {
			if f.label == d.label || rapid.Bool().Draw(t, "dskip") {
				continue
			}
			if admit {
				fs := *ns
				st.Decls = append(st.Decls, &Decl{Kind: "field", Label: f.label, Val: g.expr(f.w, &fs, false)})
			} else {
				st.Decls = append(st.Decls, &Decl{Kind: "field", Label: f.label, Val: &Expr{Conj: []*Term{tx(rapid.SampledFrom([]string{"_", "int", "string", "7", "\"q\""}).Draw(t, "dother"))}}})
			}
		}
		return &Expr{Conj: []*Term{{Struct: st}}}
	}
	other := "\"zz\""
	if d.w.kind == "int" {
		other = fmt.Sprint(d.w.n + 10)
	}
	tm := &Term{Disj: []*Expr{mk(d.w.lit(), true), mk(other, false)}, Marks: []bool{false, false}}
	if rapid.IntRange(0, 2).Draw(t, "d3") == 0 {
		o2 := "\"yy\""
		if d.w.kind == "int" {
			o2 = fmt.Sprint(d.w.n + 20)
		}
		tm.Disj = append(tm.Disj, mk(o2, false))
		tm.Marks = append(tm.Marks, false)
	}
	if rapid.Bool().Draw(t, "dswap") {
		tm.Disj[0], tm.Disj[1] = tm.Disj[1], tm.Disj[0]
	}
	return tm
}

// Conflict returns a conjunct that rejects the witness w (so that the field,
// and therefore the program, is in error whatever the order), or nil.
func (g *G) Conflict(w *W) *Term {
	t := g.T
	switch w.kind {
	case "int":
		switch rapid.IntRange(0, 5).Draw(t, "ck") {
		case 0:
			return tx(fmt.Sprintf(">%d", w.n))
		case 1:
			return tx(fmt.Sprintf("< %d", w.n))
		case 2:
			return tx(fmt.Sprintf("!=%d", w.n))
		case 3: // a range that holds numbers but no integer
			return tx(fmt.Sprintf("(>%d.5 & < %d.8)", w.n, w.n))
		case 4:
			return tx(rapid.SampledFrom([]string{"string", "bool", "null", "\"q\""}).Draw(t, "ckind"))
		default:
			return tx(fmt.Sprint(w.n + 1))
		}
	case "string":
		return tx(rapid.SampledFrom([]string{"!=\"" + w.s + "\"", "=~\"^zz\"", "int", "\"" + w.s + "z\"", "<\"" + w.s + "\""}).Draw(t, "cs"))
	case "bool":
		return tx(rapid.SampledFrom([]string{fmt.Sprint(!w.b), "int", "null"}).Draw(t, "cb"))
	case "list":
		n := len(w.elems)
		switch rapid.IntRange(0, 3).Draw(t, "cl") {
		case 0: // a longer closed list
			return tx("[" + strings.Repeat("_, ", n) + "_]")
		case 1: // a longer open list
			return tx("[" + strings.Repeat("_, ", n+1) + "...]")
		case 2:
			if n > 0 { // a shorter closed list
				return tx("[" + strings.TrimSuffix(strings.Repeat("_, ", n-1), ", ") + "]")
			}
			return tx("[_]")
		default:
			return tx("[for v in [" + strings.Repeat("1, ", n) + "1] {v}]")
		}
	}
	return nil
}

// InjectConflict adds one conflicting conjunct to a random field of st (at any depth along the witness).
func (g *G) InjectConflict(st *Struct, w *W) bool {
	t := g.T
	if len(w.fields) == 0 {
		return false
	}
	f := w.fields[rapid.IntRange(0, len(w.fields)-1).Draw(t, "cfield")]
	if f.w.kind == "struct" && len(f.w.fields) > 0 && rapid.Bool().Draw(t, "cdeeper") {
		inner := &Struct{}
		if g.InjectConflict(inner, f.w) {
			st.Decls = append(st.Decls, &Decl{Kind: "field", Label: f.label, Val: &Expr{Conj: []*Term{{Struct: inner}}}})
			return true
		}
		return false
	}
	c := g.Conflict(f.w)
	if c == nil {
		return false
	}
	// either a separate declaration or an extra operand of an existing one
	if rapid.Bool().Draw(t, "cinline") {
		for _, d := range st.Decls {
			if d.Kind == "field" && d.Label == f.label && d.Mark == "" {
				d.Val = &Expr{Conj: append(append([]*Term{}, d.Val.Conj...), c)}
				return true
			}
		}
	}
	st.Decls = append(st.Decls, &Decl{Kind: "field", Label: f.label, Val: &Expr{Conj: []*Term{c}}})
	return true
}

// Program generates a whole program for witness w with the generator's tier and features.
func (g *G) Program(w *W, concrete bool) *Struct {
	st := g.StructLit(w, nil, concrete, true)
	if g.F&FConflict != 0 && rapid.IntRange(0, 9).Draw(g.T, "conflict") == 0 {
		g.InjectConflict(st, w)
	}
	if g.F&FDerived != 0 && rapid.IntRange(0, 2).Draw(g.T, "derived") == 0 {
		g.addDerived(st, w)
	}
	if g.F&FRefTypes != 0 {
		for _, d := range []string{"#I: int", "#S: string", "#N: number", "#B: bool"} {
			l, v, _ := strings.Cut(d, ": ")
			st.Decls = append(st.Decls, &Decl{Kind: "field", Label: l, Val: &Expr{Conj: []*Term{tx(v)}}})
		}
	}
	return st
}

// addDerived appends fields x1, x2 whose values are arithmetic over the
// top-level int fields. In a non-concrete program they stay incomplete
// expressions, which is what the printer has to reproduce faithfully
// (parentheses, operator precedence).
func (g *G) addDerived(st *Struct, w *W) {
	t := g.T
	var ints []string
	for _, f := range w.fields {
		if f.w.kind == "int" {
			ints = append(ints, f.label)
		}
	}
	if len(ints) == 0 {
		return
	}
	operand := func() string {
		if rapid.IntRange(0, 2).Draw(t, "dconst") == 0 {
			return fmt.Sprint(rapid.IntRange(1, 12).Draw(t, "dc"))
		}
		return rapid.SampledFrom(ints).Draw(t, "dref")
	}
	op := func() string { return rapid.SampledFrom([]string{"+", "-", "*", "-", "/"}).Draw(t, "dop") }
	n := rapid.IntRange(1, 2).Draw(t, "nderived")
	for i := 1; i <= n; i++ {
		var e string
		switch rapid.IntRange(0, 3).Draw(t, "dshape") {
		case 0:
			e = fmt.Sprintf("%s %s %s", operand(), op(), operand())
		case 1:
			e = fmt.Sprintf("%s %s (%s %s %s)", operand(), op(), operand(), op(), operand())
		case 2:
			e = fmt.Sprintf("(%s %s %s) %s %s", operand(), op(), operand(), op(), operand())
		default:
			e = fmt.Sprintf("%s %s (%s %s (%s %s %s))", operand(), op(), operand(), op(), operand(), op(), operand())
		}
		st.Decls = append(st.Decls, &Decl{Kind: "field", Label: fmt.Sprintf("x%d", i), Val: &Expr{Conj: []*Term{tx(e)}}})
	}
}

// WitnessCUE renders the witness as concrete CUE data (a struct body).
func WitnessCUE(w *W) string {
	switch w.kind {
	case "int", "string", "bool":
		return w.lit()
	case "list":
		var s []string
		for _, e := range w.elems {
			s = append(s, WitnessCUE(e))
		}
		return "[" + strings.Join(s, ", ") + "]"
	}
	var s []string
	for _, f := range w.fields {
		s = append(s, f.label+": "+WitnessCUE(f.w))
	}
	return "{" + strings.Join(s, ", ") + "}"
}
