// Package c06: arithmetic, comparison, numeric builtins and number literals are exact.
package c06

import (
	"encoding/json"
	"fmt"
	"math/big"
	"os"
	"strings"
	"testing"

	"cuelang.org/go/cue"
	"cuelang.org/go/cue/cuecontext"
	"cuelang.org/go/cue/format"
	"cuelang.org/go/verifh/evid"
	"pgregory.net/rapid"
)

// known finding F8: integer results that need more than 34 significant digits
// are rounded. The generators exclude that class by construction unless
// VERIF_NOEXCL=F8 is set (which is how the witness was produced).
var exclF8 = !strings.Contains(os.Getenv("VERIF_NOEXCL"), "F8") && os.Getenv("VERIF_MODE") != "replay"

// known finding F36: a fractional mantissa whose product with the multiplier
// is not an integer is rejected ("number cannot be represented as int")
// although the spec defines truncation towards zero (its own example 1.3Ki).
// (fixed in /repo: the exclusion is off; the class si-fractional-product is now checked.)
var exclF36 = false

type Case struct {
	Kind string // arith cmp divmod literal builtin strcmp
	Op   string
	A, B string
}

var ctx = cuecontext.New()
var ncases int

func eval(src string) cue.Value {
	ncases++
	if ncases%2000 == 0 {
		ctx = cuecontext.New()
	}
	return ctx.CompileString(src).LookupPath(cue.ParsePath("x"))
}

func rat(s string) *big.Rat {
	r, _ := operand(s)
	return r
}

func isIntLit(s string) bool {
	if strings.HasPrefix(s, "(") {
		_, isInt := operand(s)
		return isInt
	}
	return !strings.ContainsAny(s, ".eE")
}

// operand evaluates an operand spelling with the model: a literal, or a
// computed operand "(lit op lit)" with op in + - * (exact).
func operand(s string) (*big.Rat, bool) {
	if !strings.HasPrefix(s, "(") {
		r, ok := new(big.Rat).SetString(s)
		if !ok {
			panic("bad number " + s)
		}
		return r, !strings.ContainsAny(s, ".eE")
	}
	f := strings.Fields(strings.Trim(s, "()"))
	x, xi := operand(f[0])
	y, yi := operand(f[2])
	switch f[1] {
	case "+":
		return new(big.Rat).Add(x, y), xi && yi
	case "-":
		return new(big.Rat).Sub(x, y), xi && yi
	case "*":
		return new(big.Rat).Mul(x, y), xi && yi
	}
	panic("bad operand " + s)
}

// sigDigits: number of significant digits needed to write r exactly as a
// decimal, or -1 when r is not a finite decimal.
func sigDigits(r *big.Rat) int {
	if r.Sign() == 0 {
		return 1
	}
	d := new(big.Int).Set(r.Denom())
	two, five, one := big.NewInt(2), big.NewInt(5), big.NewInt(1)
	var m big.Int
	c2, c5 := 0, 0
	for d.Cmp(one) != 0 {
		if m.Mod(d, two).Sign() == 0 {
			d.Div(d, two)
			c2++
		} else if m.Mod(d, five).Sign() == 0 {
			d.Div(d, five)
			c5++
		} else {
			return -1
		}
	}
	k := max(c2, c5)
	n := new(big.Int).Mul(r.Num(), new(big.Int).Exp(big.NewInt(10), big.NewInt(int64(k)), nil))
	n.Div(n, r.Denom())
	s := strings.TrimPrefix(n.String(), "-")
	s = strings.TrimRight(s, "0")
	return len(s)
}

var ten = big.NewRat(10, 1)

// halfULP34 returns half a unit in the 34th significant digit of r (r != 0).
func halfULP34(r *big.Rat) *big.Rat {
	if r.Sign() == 0 {
		return new(big.Rat)
	}
	a := new(big.Rat).Abs(r)
	// e = floor(log10(a))
	e := len(a.Num().String()) - len(a.Denom().String())
	p := pow10(e)
	for a.Cmp(p) < 0 {
		e--
		p = pow10(e)
	}
	for a.Cmp(pow10(e+1)) >= 0 {
		e++
	}
	u := pow10(e - 33)
	return u.Quo(u, big.NewRat(2, 1))
}

// round34 rounds r to 34 significant digits (half away from zero).
func round34(r *big.Rat) *big.Rat {
	if r.Sign() == 0 {
		return new(big.Rat)
	}
	u := halfULP34(r)
	u.Mul(u, big.NewRat(2, 1)) // one unit of the 34th digit
	q := new(big.Rat).Quo(new(big.Rat).Abs(r), u)
	q.Add(q, big.NewRat(1, 2))
	n := new(big.Int).Div(q.Num(), q.Denom())
	out := new(big.Rat).SetInt(n)
	out.Mul(out, u)
	if r.Sign() < 0 {
		out.Neg(out)
	}
	return out
}

func pow10(e int) *big.Rat {
	x := new(big.Int).Exp(big.NewInt(10), big.NewInt(int64(abs(e))), nil)
	if e >= 0 {
		return new(big.Rat).SetInt(x)
	}
	return new(big.Rat).SetFrac(big.NewInt(1), x)
}

func abs(x int) int {
	if x < 0 {
		return -x
	}
	return x
}

// readNum reads the number an evaluated value denotes from its printed form.
func readNum(v cue.Value) (*big.Rat, string, bool) {
	s := fmt.Sprint(v)
	r, ok := new(big.Rat).SetString(s)
	return r, s, ok
}

func checkRounded(src string, got, want *big.Rat, printed string) string {
	if sd := sigDigits(want); sd >= 0 && sd <= 34 {
		if got.Cmp(want) != 0 {
			return fmt.Sprintf("%s = %s, exact result %s is representable in %d digits", src, printed, want.FloatString(50), sd)
		}
		return ""
	}
	if sigDigits(got) > 34 {
		return fmt.Sprintf("%s = %s has more than 34 significant digits", src, printed)
	}
	diff := new(big.Rat).Sub(got, want)
	if diff.Abs(diff).Cmp(halfULP34(want)) > 0 {
		return fmt.Sprintf("%s = %s is not the exact result %s rounded to 34 digits", src, printed, want.FloatString(60))
	}
	return ""
}

func run(c Case) evid.Result {
	res := evid.Result{Classes: []string{c.Kind + ":" + c.Op}}
	switch c.Kind {
	case "arith":
		ra, rb := rat(c.A), rat(c.B)
		src := fmt.Sprintf("x: (%s) %s (%s)", c.A, c.Op, c.B)
		v := eval(src)
		bothInt := isIntLit(c.A) && isIntLit(c.B)
		var want *big.Rat
		switch c.Op {
		case "+":
			want = new(big.Rat).Add(ra, rb)
		case "-":
			want = new(big.Rat).Sub(ra, rb)
		case "*":
			want = new(big.Rat).Mul(ra, rb)
		case "/":
			if rb.Sign() == 0 {
				if v.Err() == nil {
					res.Fail = src + " does not report an error for a zero divisor: " + fmt.Sprint(v)
				}
				res.Classes = append(res.Classes, "zero-divisor")
				res.NonTrivial = true
				return res
			}
			want = new(big.Rat).Quo(ra, rb)
		}
		wantInt := bothInt && c.Op != "/"
		if v.Err() != nil {
			res.Fail = fmt.Sprintf("%s: unexpected error %v", src, v.Err())
			return res
		}
		if (v.Kind() == cue.IntKind) != wantInt || (!wantInt && v.Kind() != cue.FloatKind) {
			res.Fail = fmt.Sprintf("%s has kind %v, want int=%v", src, v.Kind(), wantInt)
			return res
		}
		got, printed, ok := readNum(v)
		if !ok {
			res.Fail = fmt.Sprintf("%s prints as %q which is not a number", src, printed)
			return res
		}
		if wantInt {
			if got.Cmp(want) != 0 {
				res.Fail = fmt.Sprintf("%s = %s, exact integer result is %s", src, printed, want.FloatString(0))
			}
		} else {
			res.Fail = checkRounded(src, got, want, printed)
			if sd := sigDigits(want); sd < 0 || sd > 34 {
				res.Classes = append(res.Classes, "rounded-to-34")
			}
		}
		res.NonTrivial = sigDigits(want) > 15 || sigDigits(want) < 0 || isIntLit(c.A) != isIntLit(c.B) || ra.Sign()*rb.Sign() < 0
		return res

	case "cmp":
		ra, rb := rat(c.A), rat(c.B)
		src := fmt.Sprintf("x: (%s) %s (%s)", c.A, c.Op, c.B)
		v := eval(src)
		cm := ra.Cmp(rb)
		want := map[string]bool{"<": cm < 0, "<=": cm <= 0, ">": cm > 0, ">=": cm >= 0, "==": cm == 0, "!=": cm != 0}[c.Op]
		got, err := v.Bool()
		if err != nil || got != want {
			res.Fail = fmt.Sprintf("%s = %v (err %v), want %v", src, v, err, want)
		}
		res.NonTrivial = isIntLit(c.A) != isIntLit(c.B) || ra.Sign()*rb.Sign() < 0 || sigDigits(ra) > 15
		return res

	case "strcmp", "bytecmp":
		// A and B hold raw bytes as hex
		a, b := unhex(c.A), unhex(c.B)
		var la, lb string
		if c.Kind == "strcmp" {
			la, lb = strLit(a), strLit(b)
		} else {
			la, lb = bytesLit(a), bytesLit(b)
		}
		src := fmt.Sprintf("x: %s %s %s", la, c.Op, lb)
		v := eval(src)
		cm := strings.Compare(a, b)
		want := map[string]bool{"<": cm < 0, "<=": cm <= 0, ">": cm > 0, ">=": cm >= 0, "==": cm == 0, "!=": cm != 0}[c.Op]
		got, err := v.Bool()
		if err != nil || got != want {
			res.Fail = fmt.Sprintf("%s = %v (err %v), want %v (bytewise)", src, v, err, want)
		}
		res.NonTrivial = len(a) > 0 && len(b) > 0 && a != b && (a[0] >= 0x80 || b[0] >= 0x80 || strings.HasPrefix(a, b) || strings.HasPrefix(b, a))
		return res

	case "divmod":
		a, _ := new(big.Int).SetString(c.A, 10)
		b, _ := new(big.Int).SetString(c.B, 10)
		// the operands are named fields shared by all four calls (and used twice)
		src := fmt.Sprintf("a: %s\nb: %s\nx: [div(a, b), mod(a, b), quo(a, b), rem(a, b)]\ny: [rem(a, b), quo(a, b), mod(a, b), div(a, b)]", c.A, c.B)
		if b.Sign() == 0 {
			for _, f := range []string{"div", "mod", "quo", "rem"} {
				v := eval(fmt.Sprintf("x: %s(%s, %s)", f, c.A, c.B))
				if v.Err() == nil {
					res.Fail = fmt.Sprintf("%s(%s, 0) = %v, want an error", f, c.A, v)
					return res
				}
			}
			res.Classes = append(res.Classes, "zero-divisor")
			res.NonTrivial = true
			return res
		}
		v := eval(src)
		if v.Err() != nil {
			res.Fail = fmt.Sprintf("%s: %v", src, v.Err())
			return res
		}
		var got [4]*big.Int
		for i := range got {
			e := v.LookupPath(cue.MakePath(cue.Index(i)))
			if e.Kind() != cue.IntKind {
				res.Fail = fmt.Sprintf("%s: element %d has kind %v", src, i, e.Kind())
				return res
			}
			got[i], _ = new(big.Int).SetString(fmt.Sprint(e), 10)
			if got[i] == nil {
				res.Fail = fmt.Sprintf("%s: element %d prints as %v", src, i, e)
				return res
			}
		}
		d, m := new(big.Int).DivMod(a, b, new(big.Int)) // Euclidean
		q, r := new(big.Int).QuoRem(a, b, new(big.Int)) // truncated
		if got[0].Cmp(d) != 0 || got[1].Cmp(m) != 0 || got[2].Cmp(q) != 0 || got[3].Cmp(r) != 0 {
			res.Fail = fmt.Sprintf("%s = %v, want [%v, %v, %v, %v]", src, v, d, m, q, r)
			return res
		}
		y := ctx.CompileString(src).LookupPath(cue.ParsePath("y"))
		for i, w := range []*big.Int{r, q, m, d} {
			e := y.LookupPath(cue.MakePath(cue.Index(i)))
			if g, _ := new(big.Int).SetString(fmt.Sprint(e), 10); g == nil || g.Cmp(w) != 0 {
				res.Fail = fmt.Sprintf("%s: second use of the shared operands: y[%d] = %v, want %v", src, i, e, w)
				return res
			}
		}
		// the identities, stated on the evaluator's own results
		chk := new(big.Int).Mul(b, got[0])
		chk.Add(chk, got[1])
		if chk.Cmp(a) != 0 || got[1].Sign() < 0 || got[1].CmpAbs(b) >= 0 {
			res.Fail = fmt.Sprintf("%s = %v violates the Euclidean identities", src, v)
		}
		chk.Mul(b, got[2])
		chk.Add(chk, got[3])
		if chk.Cmp(a) != 0 || (got[3].Sign() != 0 && got[3].Sign() != a.Sign()) || got[3].CmpAbs(b) >= 0 {
			res.Fail = fmt.Sprintf("%s = %v violates the truncated-division identities", src, v)
		}
		res.NonTrivial = a.Sign()*b.Sign() < 0 || len(c.A) > 15
		return res

	case "literal":
		// A is the spelling, B the expected exact value "int:<rat>" or "float:<rat>" computed by genLiteral
		if c.B == "excluded" {
			res.Skip, res.Excluded = true, "NoFractionalSIProduct(F36)"
			return res
		}
		kind, val, _ := strings.Cut(c.B, ":")
		want := rat(val)
		v := eval("x: " + c.A)
		if v.Err() != nil {
			res.Fail = fmt.Sprintf("literal %s: %v", c.A, v.Err())
			return res
		}
		if (kind == "int") != (v.Kind() == cue.IntKind) {
			res.Fail = fmt.Sprintf("literal %s has kind %v, want %s", c.A, v.Kind(), kind)
			return res
		}
		got, printed, ok := readNum(v)
		if !ok {
			res.Fail = fmt.Sprintf("literal %s prints as %q", c.A, printed)
			return res
		}
		if kind == "int" || sigDigits(want) <= 34 {
			if got.Cmp(want) != 0 {
				res.Fail = fmt.Sprintf("literal %s = %s, the grammar defines %s", c.A, printed, want.FloatString(40))
				return res
			}
		} else if f := checkRounded("literal "+c.A, got, want, printed); f != "" {
			res.Fail = f
			return res
		}
		// print and read back: String(), JSON, Syntax+format
		if f := readBack(v, got, kind == "int", c.A); f != "" {
			res.Fail = f
			return res
		}
		res.NonTrivial = strings.ContainsAny(c.A, "_xXobKMGTPi") || strings.ContainsAny(c.A, "eE")
		return res

	case "builtin":
		return runBuiltin(c, res)
	}
	res.Fail = "unknown case kind " + c.Kind
	return res
}

func readBack(v cue.Value, want *big.Rat, isInt bool, what string) string {
	// JSON
	b, err := v.MarshalJSON()
	if err != nil {
		return fmt.Sprintf("%s: MarshalJSON: %v", what, err)
	}
	var n json.Number
	dec := json.NewDecoder(strings.NewReader(string(b)))
	dec.UseNumber()
	if err := dec.Decode(&n); err != nil {
		return fmt.Sprintf("%s: JSON %s is not a number: %v", what, b, err)
	}
	r, ok := new(big.Rat).SetString(n.String())
	if !ok || r.Cmp(want) != 0 {
		return fmt.Sprintf("%s: JSON %s does not denote %s", what, b, want.FloatString(40))
	}
	// Syntax + format, re-evaluated
	src, err := format.Node(v.Syntax())
	if err != nil {
		return fmt.Sprintf("%s: format: %v", what, err)
	}
	w := ctx.CompileString("x: " + string(src)).LookupPath(cue.ParsePath("x"))
	r2, p2, ok := readNum(w)
	if !ok || r2.Cmp(want) != 0 || (w.Kind() == cue.IntKind) != isInt {
		return fmt.Sprintf("%s: printed as %s which reads back as %s (kind %v)", what, src, p2, w.Kind())
	}
	// AppendInt / AppendFloat
	if isInt {
		bs, err := v.AppendInt(nil, 10)
		if err != nil {
			return fmt.Sprintf("%s: AppendInt: %v", what, err)
		}
		r3, ok := new(big.Rat).SetString(string(bs))
		if !ok || r3.Cmp(want) != 0 {
			return fmt.Sprintf("%s: AppendInt gives %s", what, bs)
		}
	} else {
		bs, err := v.AppendFloat(nil, 'g', -1)
		if err != nil {
			return fmt.Sprintf("%s: AppendFloat: %v", what, err)
		}
		r3, ok := new(big.Rat).SetString(string(bs))
		if !ok || r3.Cmp(want) != 0 {
			return fmt.Sprintf("%s: AppendFloat(g,-1) gives %s", what, bs)
		}
	}
	return ""
}

func runBuiltin(c Case, res evid.Result) evid.Result {
	ra := rat(c.A)
	src := fmt.Sprintf("import \"math\"\nx: math.%s(%s)", c.Op, c.A)
	if c.B != "" {
		src = fmt.Sprintf("import \"math\"\nx: math.%s(%s, %s)", c.Op, c.A, c.B)
	}
	if exclF8 && c.Op != "MultipleOf" && (sigDigits(ra) > 34 || (c.B != "" && sigDigits(rat(c.B)) > 34)) {
		res.Skip, res.Excluded = true, "OperandAtMost34Digits(F8)"
		return res
	}
	v := eval(src)
	floorOf := func(r *big.Rat) *big.Int { // Euclidean floor
		q := new(big.Int).Div(r.Num(), r.Denom())
		return q
	}
	var want *big.Rat
	wantInt := true
	switch c.Op {
	case "Floor":
		want = new(big.Rat).SetInt(floorOf(ra))
	case "Ceil":
		f := floorOf(ra)
		if !ra.IsInt() {
			f.Add(f, big.NewInt(1))
		}
		want = new(big.Rat).SetInt(f)
	case "Trunc":
		want = new(big.Rat).SetInt(new(big.Int).Quo(ra.Num(), ra.Denom()))
	case "Round": // half away from zero
		a := new(big.Rat).Abs(ra)
		a.Add(a, big.NewRat(1, 2))
		f := floorOf(a)
		if ra.Sign() < 0 {
			f.Neg(f)
		}
		want = new(big.Rat).SetInt(f)
	case "Abs":
		want = new(big.Rat).Abs(ra)
		wantInt = isIntLit(c.A)
	case "MultipleOf":
		rb := rat(c.B)
		if rb.Sign() == 0 {
			if v.Err() == nil {
				res.Fail = src + ": no error for a zero divisor"
			}
			return res
		}
		q := new(big.Rat).Quo(ra, rb)
		// (F38, fixed: the quotient used to be rounded to 34 digits before the integrality test)
		if !q.IsInt() && round34(q).IsInt() {
			res.Classes = append(res.Classes, "multipleof-quotient-integral-only-after-rounding")
		}
		got, err := v.Bool()
		if err != nil || got != q.IsInt() {
			res.Fail = fmt.Sprintf("%s = %v (err %v), want %v", src, v, err, q.IsInt())
		}
		res.NonTrivial = !isIntLit(c.A) || !isIntLit(c.B)
		return res
	case "Pow":
		rb := rat(c.B) // small non-negative integer exponent
		e := int(rb.Num().Int64())
		if e == 0 && ra.Sign() == 0 {
			res.Skip = true // 0^0: an "invalid operation" error is a legitimate answer
			return res
		}
		want = big.NewRat(1, 1)
		for i := 0; i < e; i++ {
			want.Mul(want, ra)
		}
		wantInt = false // kind is checked loosely below
		if v.Err() != nil {
			res.Fail = fmt.Sprintf("%s: %v", src, v.Err())
			return res
		}
		got, printed, ok := readNum(v)
		if !ok {
			res.Fail = fmt.Sprintf("%s prints as %q", src, printed)
			return res
		}
		if isIntLit(c.A) && sigDigits(want) <= 34 {
			if got.Cmp(want) != 0 {
				res.Fail = fmt.Sprintf("%s = %s, exact result %s", src, printed, want.FloatString(0))
			}
		} else if isIntLit(c.A) && exclF8 {
			res.Skip, res.Excluded = true, "IntResultAtMost34Digits(F8)"
		} else {
			// documented precision: within one unit of the 34th digit (Pow is not required to be correctly rounded)
			diff := new(big.Rat).Sub(got, want)
			lim := halfULP34(want)
			lim.Mul(lim, big.NewRat(4, 1))
			if want.Sign() != 0 && diff.Abs(diff).Cmp(lim) > 0 {
				res.Fail = fmt.Sprintf("%s = %s, exact %s: off by more than 2 units in the 34th digit", src, printed, want.FloatString(60))
			}
		}
		res.NonTrivial = true
		return res
	}
	if v.Err() != nil {
		res.Fail = fmt.Sprintf("%s: %v", src, v.Err())
		return res
	}
	if wantInt && v.Kind() != cue.IntKind {
		res.Fail = fmt.Sprintf("%s has kind %v, want int", src, v.Kind())
		return res
	}
	got, printed, ok := readNum(v)
	if !ok || got.Cmp(want) != 0 {
		res.Fail = fmt.Sprintf("%s = %s, want %s", src, printed, want.FloatString(40))
	}
	res.NonTrivial = !ra.IsInt() || ra.Sign() < 0
	return res
}

// ---- string / bytes literals written without depending on cue/literal ----

func unhex(h string) string {
	var b []byte
	for i := 0; i+1 < len(h); i += 2 {
		var x byte
		fmt.Sscanf(h[i:i+2], "%02x", &x)
		b = append(b, x)
	}
	return string(b)
}

func strLit(s string) string {
	var sb strings.Builder
	sb.WriteByte('"')
	for _, r := range s {
		if r < 0x10000 {
			fmt.Fprintf(&sb, `\u%04x`, r)
		} else {
			fmt.Fprintf(&sb, `\U%08x`, r)
		}
	}
	sb.WriteByte('"')
	return sb.String()
}

func bytesLit(s string) string {
	var sb strings.Builder
	sb.WriteByte('\'')
	for i := 0; i < len(s); i++ {
		fmt.Fprintf(&sb, `\x%02x`, s[i])
	}
	sb.WriteByte('\'')
	return sb.String()
}

// ---- generators ------------------------------------------------------------

var boundary = []string{"0", "1", "2", "7", "10", "9223372036854775807", "9223372036854775808", "18446744073709551615", "18446744073709551616",
	"9999999999999999999999999999999999", "10000000000000000000000000000000000", "4999999999999999999999999999999999", "5000000000000000000000000000000000",
	"0.5", "1.5", "2.5", "0.1", "0.25", "1.0", "2.0", "1e3", "1e-3", "1e-34", "1e34", "0.0000000000000000000000000000000001", "3.0000000000000000000000000000000001", "1e400", "1e-400"}

func digits(t *rapid.T, n int) string {
	var sb strings.Builder
	for i := 0; i < n; i++ {
		d := rapid.IntRange(0, 9).Draw(t, "d")
		if i == 0 && d == 0 && n > 1 {
			d = 1
		}
		sb.WriteByte(byte('0' + d))
	}
	return sb.String()
}

func genInt(t *rapid.T, maxDigits int) string {
	s := ""
	switch rapid.IntRange(0, 3).Draw(t, "ik") {
	case 0:
		s = rapid.SampledFrom(boundary[:13]).Draw(t, "ib")
	case 1:
		s = digits(t, rapid.IntRange(1, 3).Draw(t, "n"))
	default:
		s = digits(t, rapid.IntRange(1, maxDigits).Draw(t, "n"))
	}
	if s != "0" && rapid.Bool().Draw(t, "neg") {
		s = "-" + s
	}
	return s
}

func genNum(t *rapid.T) string {
	k := rapid.IntRange(0, 7).Draw(t, "k")
	sign := ""
	if rapid.Bool().Draw(t, "neg") {
		sign = "-"
	}
	switch k {
	case 0:
		return sign + rapid.SampledFrom(boundary).Draw(t, "c")
	case 1, 2:
		return sign + digits(t, rapid.IntRange(1, 20).Draw(t, "n"))
	case 3:
		return sign + digits(t, rapid.IntRange(1, 40).Draw(t, "n"))
	case 4:
		return sign + digits(t, rapid.IntRange(1, 12).Draw(t, "n")) + "." + digits(t, rapid.IntRange(1, 12).Draw(t, "m"))
	case 5:
		return sign + digits(t, rapid.IntRange(1, 30).Draw(t, "n")) + "." + digits(t, rapid.IntRange(1, 30).Draw(t, "m"))
	case 6:
		return sign + digits(t, rapid.IntRange(1, 5).Draw(t, "n")) + "." + digits(t, rapid.IntRange(1, 4).Draw(t, "m")) + "e" + fmt.Sprint(rapid.IntRange(-40, 40).Draw(t, "e"))
	default:
		return sign + digits(t, rapid.IntRange(1, 20).Draw(t, "n")) + "e" + fmt.Sprint(rapid.IntRange(-600, 600).Draw(t, "e"))
	}
}

func genArith(t *rapid.T) Case {
	op := rapid.SampledFrom([]string{"+", "-", "*", "/"}).Draw(t, "op")
	a, b := genNum(t), genNum(t)
	if rapid.IntRange(0, 9).Draw(t, "rel") == 0 {
		b = a // cancellation
	}
	if rapid.IntRange(0, 5).Draw(t, "computed") == 0 {
		a = computed(t)
	}
	return Case{Kind: "arith", Op: op, A: a, B: b}
}

var smallOps = []string{"0", "1", "-1", "2", "-5", "0.0", "0.5", "-0.5", "1.0", "-2.5", "10", "1e3", "-0.0"}

// computed draws an operand that is the result of an operation (so that signed
// zeros, non-normalised exponents and the like reach the operator under test).
func computed(t *rapid.T) string {
	return fmt.Sprintf("(%s %s %s)", rapid.SampledFrom(smallOps).Draw(t, "cx"), rapid.SampledFrom([]string{"+", "-", "*"}).Draw(t, "cop"), rapid.SampledFrom(smallOps).Draw(t, "cy"))
}

func genCmp(t *rapid.T) Case {
	op := rapid.SampledFrom([]string{"<", "<=", ">", ">=", "==", "!="}).Draw(t, "op")
	a := genNum(t)
	b := genNum(t)
	if rapid.IntRange(0, 3).Draw(t, "computed") == 0 {
		a = computed(t)
		if rapid.Bool().Draw(t, "bsmall") {
			b = rapid.SampledFrom(smallOps).Draw(t, "bs")
		} else if rapid.Bool().Draw(t, "bcomp") {
			b = computed(t)
		}
		return Case{Kind: "cmp", Op: op, A: a, B: b}
	}
	switch rapid.IntRange(0, 5).Draw(t, "rel") {
	case 0:
		b = a
	case 1: // same value, other kind / other spelling
		if isIntLit(a) {
			b = a + ".0"
		} else if !strings.ContainsAny(a, "eE") {
			b = a + "0"
		}
	case 2: // differ in the last place
		if isIntLit(a) {
			r := rat(a)
			r.Add(r, big.NewRat(1, 1))
			b = r.FloatString(0)
		} else if !strings.ContainsAny(a, "eE") {
			b = a + "1"
		}
	}
	return Case{Kind: "cmp", Op: op, A: a, B: b}
}

func genStrCmp(t *rapid.T) Case {
	op := rapid.SampledFrom([]string{"<", "<=", ">", ">=", "==", "!="}).Draw(t, "op")
	if rapid.Bool().Draw(t, "bytes") {
		a := rapid.SliceOfN(rapid.Byte(), 0, 4).Draw(t, "a")
		b := rapid.SliceOfN(rapid.Byte(), 0, 4).Draw(t, "b")
		if rapid.IntRange(0, 3).Draw(t, "pre") == 0 {
			b = append(append([]byte{}, a...), b...)
		}
		return Case{Kind: "bytecmp", Op: op, A: fmt.Sprintf("%x", a), B: fmt.Sprintf("%x", b)}
	}
	rs := []rune{'a', 'b', 'Z', '0', ' ', 0x7f, 0x80, 0xe9, 0x7ff, 0x800, 0xfffd, 0xffff, 0x10000, 0x10ffff, 0x1f600, 0xd7ff, 0xe000, 'é', 0x301}
	gs := func(l string) string {
		n := rapid.IntRange(0, 3).Draw(t, l)
		var sb strings.Builder
		for i := 0; i < n; i++ {
			sb.WriteRune(rapid.SampledFrom(rs).Draw(t, "r"))
		}
		return sb.String()
	}
	a, b := gs("la"), gs("lb")
	if rapid.IntRange(0, 3).Draw(t, "pre") == 0 {
		b = a + b
	}
	return Case{Kind: "strcmp", Op: op, A: fmt.Sprintf("%x", a), B: fmt.Sprintf("%x", b)}
}

func genDivMod(t *rapid.T) Case {
	a := genInt(t, 60)
	b := genInt(t, 45)
	if rapid.IntRange(0, 19).Draw(t, "zero") == 0 {
		b = "0"
	}
	return Case{Kind: "divmod", A: a, B: b}
}

func sepDigits(t *rapid.T, ds string) string {
	// insert interstitial underscores
	var sb strings.Builder
	for i := 0; i < len(ds); i++ {
		if i > 0 && rapid.IntRange(0, 4).Draw(t, "us") == 0 {
			sb.WriteByte('_')
		}
		sb.WriteByte(ds[i])
	}
	return sb.String()
}

// genLiteral produces a spelling from the number-literal grammar of the spec
// together with the value the spec defines for it (own computation).
func genLiteral(t *rapid.T) Case {
	mult := map[string]*big.Rat{"": big.NewRat(1, 1)}
	names := []string{"K", "M", "G", "T", "P"}
	p1000, p1024 := big.NewRat(1, 1), big.NewRat(1, 1)
	for _, n := range names {
		p1000 = new(big.Rat).Mul(p1000, big.NewRat(1000, 1))
		p1024 = new(big.Rat).Mul(p1024, big.NewRat(1024, 1))
		mult[n], mult[n+"i"] = p1000, p1024
	}
	decimals := func(l string, max int, leadingZeroOK bool) string {
		n := rapid.IntRange(1, max).Draw(t, l)
		var sb strings.Builder
		for i := 0; i < n; i++ {
			lo := 0
			if i == 0 && !leadingZeroOK && n > 1 {
				lo = 1
			}
			sb.WriteByte(byte('0' + rapid.IntRange(lo, 9).Draw(t, "d")))
		}
		return sb.String()
	}
	switch rapid.IntRange(0, 7).Draw(t, "lk") {
	case 0: // decimal_lit
		ds := decimals("n", 40, false)
		return Case{Kind: "literal", Op: "decimal", A: sepDigits(t, ds), B: "int:" + ds}
	case 1: // hex
		n := rapid.IntRange(1, 30).Draw(t, "n")
		var ds strings.Builder
		for i := 0; i < n; i++ {
			ds.WriteByte("0123456789abcdefABCDEF"[rapid.IntRange(0, 21).Draw(t, "h")])
		}
		v, _ := new(big.Int).SetString(ds.String(), 16)
		return Case{Kind: "literal", Op: "hex", A: rapid.SampledFrom([]string{"0x", "0X"}).Draw(t, "p") + sepDigits(t, ds.String()), B: "int:" + v.String()}
	case 2: // octal
		n := rapid.IntRange(1, 30).Draw(t, "n")
		var ds strings.Builder
		for i := 0; i < n; i++ {
			ds.WriteByte(byte('0' + rapid.IntRange(0, 7).Draw(t, "o")))
		}
		v, _ := new(big.Int).SetString(ds.String(), 8)
		return Case{Kind: "literal", Op: "octal", A: "0o" + sepDigits(t, ds.String()), B: "int:" + v.String()}
	case 3: // binary
		n := rapid.IntRange(1, 70).Draw(t, "n")
		var ds strings.Builder
		for i := 0; i < n; i++ {
			ds.WriteByte(byte('0' + rapid.IntRange(0, 1).Draw(t, "b")))
		}
		v, _ := new(big.Int).SetString(ds.String(), 2)
		return Case{Kind: "literal", Op: "binary", A: "0b" + sepDigits(t, ds.String()), B: "int:" + v.String()}
	case 4, 5: // si_lit: decimals [ "." decimals ] multiplier | "." decimals multiplier
		m := rapid.SampledFrom([]string{"K", "M", "G", "T", "P", "Ki", "Mi", "Gi", "Ti", "Pi"}).Draw(t, "m")
		ip, fp := "", ""
		switch rapid.IntRange(0, 2).Draw(t, "sk") {
		case 0:
			ip = decimals("n", 12, false)
		case 1:
			ip = decimals("n", 8, false)
			fp = decimals("f", 12, true)
		default:
			fp = decimals("f", 12, true)
		}
		val := "0"
		if ip != "" {
			val = ip
		}
		sp := sepDigits(t, ip)
		if fp != "" {
			val += "." + fp
			sp += "." + sepDigits(t, fp)
		}
		r := rat(val)
		r.Mul(r, mult[m])
		tr := new(big.Int).Quo(r.Num(), r.Denom()) // truncated towards zero
		if !r.IsInt() && exclF36 {
			return Case{Kind: "literal", Op: "si-fractional-product", A: sp + m, B: "excluded"}
		}
		if !r.IsInt() {
			// the spec's trunc(): 1.3Ki = 1331 (was rejected before the fix of F36)
			return Case{Kind: "literal", Op: "si-truncated", A: sp + m, B: "int:" + tr.String()}
		}
		return Case{Kind: "literal", Op: "si", A: sp + m, B: "int:" + tr.String()}
	default: // float_lit
		ip, fp, ex := "", "", ""
		shape := rapid.IntRange(0, 3).Draw(t, "fk")
		switch shape {
		case 0: // decimals "." [decimals] [exponent]
			ip = decimals("n", 20, false)
			if rapid.Bool().Draw(t, "hasfrac") {
				fp = decimals("f", 14, true)
			}
		case 1: // decimals exponent
			ip = decimals("n", 20, false)
		default: // "." decimals [exponent]
			fp = decimals("f", 20, true)
		}
		if shape == 1 || rapid.Bool().Draw(t, "hasexp") {
			ex = rapid.SampledFrom([]string{"e", "E"}).Draw(t, "e") + rapid.SampledFrom([]string{"", "+", "-"}).Draw(t, "es") + decimals("x", 3, true)
		}
		sp, val := "", ""
		switch shape {
		case 0:
			sp, val = sepDigits(t, ip)+".", ip
			if fp != "" {
				sp += sepDigits(t, fp)
				val += "." + fp
			}
		case 1:
			sp, val = sepDigits(t, ip), ip
		default:
			sp, val = "."+sepDigits(t, fp), "0."+fp
		}
		sp += ex
		val += ex
		return Case{Kind: "literal", Op: "float", A: sp, B: "float:" + rat(val).String()}
	}
}

func genBuiltin(t *rapid.T) Case {
	op := rapid.SampledFrom([]string{"Floor", "Ceil", "Trunc", "Round", "Abs", "MultipleOf", "Pow"}).Draw(t, "op")
	switch op {
	case "MultipleOf":
		a := genNum(t)
		b := genNum(t)
		if rapid.Bool().Draw(t, "mul") { // make it a multiple
			r := rat(b)
			r.Mul(r, big.NewRat(int64(rapid.IntRange(-50, 50).Draw(t, "k")), 1))
			if sd := sigDigits(r); sd >= 0 && sd < 60 {
				a = r.FloatString(700)
				a = strings.TrimRight(strings.TrimRight(a, "0"), ".")
				if a == "" || a == "-" {
					a = "0"
				}
			}
		}
		return Case{Kind: "builtin", Op: op, A: a, B: b}
	case "Pow":
		return Case{Kind: "builtin", Op: op, A: genNum(t), B: fmt.Sprint(rapid.IntRange(0, 6).Draw(t, "e"))}
	}
	a := genNum(t)
	if rapid.IntRange(0, 2).Draw(t, "half") == 0 {
		a = genInt(t, 20) + ".5"
	}
	return Case{Kind: "builtin", Op: op, A: a}
}

func TestArith(t *testing.T) { evid.Main(t, evid.Check[Case]{Name: "arith", Gen: genArith, Run: run}) }
func TestCmp(t *testing.T) {
	evid.Main(t, evid.Check[Case]{Name: "cmp", Gen: func(t *rapid.T) Case {
		if rapid.IntRange(0, 3).Draw(t, "str") == 0 {
			return genStrCmp(t)
		}
		return genCmp(t)
	}, Run: run})
}
func TestDivMod(t *testing.T)  { evid.Main(t, evid.Check[Case]{Name: "divmod", Gen: genDivMod, Run: run}) }
func TestLiteral(t *testing.T) { evid.Main(t, evid.Check[Case]{Name: "literal", Gen: genLiteral, Run: run}) }
func TestBuiltin(t *testing.T) { evid.Main(t, evid.Check[Case]{Name: "builtin", Gen: genBuiltin, Run: run}) }

// TestSmall: exhaustive over the boundary set for every operator.
func TestSmall(t *testing.T) {
	shard, n := evid.Shard()
	evid.Enumerate(t, evid.Check[Case]{Name: "small", Run: run}, func(yield func(Case) bool) {
		i := 0
		var ops []string
		for _, s := range boundary {
			ops = append(ops, s)
			if s != "0" {
				ops = append(ops, "-"+s)
			}
		}
		ops = append(ops, "-0.0", "0.0")
		for _, a := range ops {
			for _, b := range ops {
				for _, op := range []string{"+", "-", "*", "/", "<", "<=", ">", ">=", "==", "!="} {
					i++
					if i%n != shard {
						continue
					}
					k := "arith"
					if strings.ContainsAny(op, "<>=!") {
						k = "cmp"
					}
					if !yield(Case{Kind: k, Op: op, A: a, B: b}) {
						return
					}
				}
				if isIntLit(a) && isIntLit(b) {
					i++
					if i%n == shard && !yield(Case{Kind: "divmod", A: a, B: b}) {
						return
					}
				}
			}
		}
	}, true)
}
