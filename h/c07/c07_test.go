// Package c07: printing an evaluated value as CUE and evaluating it again gives the same value.
package c07

import (
	"bytes"
	"fmt"
	"os"
	"strconv"
	"strings"
	"testing"

	"cuelang.org/go/cue"
	"cuelang.org/go/cue/cuecontext"
	"cuelang.org/go/cue/format"
	"cuelang.org/go/verifh/canon"
	"cuelang.org/go/verifh/corpus"
	"cuelang.org/go/verifh/dgen"
	"cuelang.org/go/verifh/evid"
	"cuelang.org/go/verifh/pgen"
	"pgregory.net/rapid"
)

var excl = os.Getenv("VERIF_MODE") != "replay"

type Case struct {
	Witness string // concrete data the program admits (a struct literal), "" if unknown
	Src     string
	Profile string // def all final concrete docs
	Path    string // sub-value to print ("" = root)
}

func tier() int {
	if s := os.Getenv("VERIF_TIER_MAX"); s != "" {
		n, _ := strconv.Atoi(s)
		return n
	}
	return 1
}

func options(p string) []cue.Option {
	switch p {
	case "all":
		return []cue.Option{cue.All()}
	case "final":
		return []cue.Option{cue.Final()}
	case "concrete":
		return []cue.Option{cue.Concrete(true)}
	case "docs":
		return []cue.Option{cue.Docs(true), cue.Attributes(true)}
	case "hidden":
		return []cue.Option{cue.Definitions(true), cue.Hidden(true), cue.Optional(true)}
	}
	return nil
}

func run(c Case) (res evid.Result) {
	defer func() {
		if r := recover(); r != nil {
			res.Fail = fmt.Sprintf("panic: %v\nsrc: %s", r, c.Src)
		}
	}()
	res.Classes = append(pgen.Features(c.Src), "profile:"+c.Profile)
	v := cuecontext.New().CompileString(c.Src)
	if c.Path != "" {
		v = v.LookupPath(cue.ParsePath(c.Path))
		if !v.Exists() {
			res.Skip = true
			return
		}
		res.Classes = append(res.Classes, "sub-value")
	}
	cv := canon.Of(v, 0)
	if strings.Contains(cv, "ERR") {
		res.Skip = true // evaluation does not succeed: outside the property's domain
		res.Classes = append(res.Classes, "fatal-error")
		return
	}
	incomplete := strings.Contains(cv, "INCOMPLETE")
	concrete := v.Validate(cue.Concrete(true)) == nil
	if (c.Profile == "concrete" || c.Profile == "final") && !concrete {
		// Final/Concrete promise data; a non-concrete value is reported as an error by these profiles
		res.Skip = true
		return
	}
	syn := v.Syntax(options(c.Profile)...)
	b, err := format.Node(syn)
	if err != nil {
		res.Fail = fmt.Sprintf("format of Syntax(%s) failed: %v\nsrc: %s", c.Profile, err, c.Src)
		return
	}
	w := cuecontext.New().CompileBytes(b)
	if err := w.Err(); err != nil && !incomplete {
		res.Fail = fmt.Sprintf("printed text does not compile/evaluate on its own (profile %s): %v\nsrc: %s\nout: %s", c.Profile, err, c.Src, b)
		return
	}
	switch c.Profile {
	case "def", "all", "docs", "hidden":
		if cw := canon.Of(w, 0); cw != cv {
			res.Fail = fmt.Sprintf("printed text evaluates to a different value (profile %s)\nsrc: %s\nout: %s\ncanon(v): %s\ncanon(w): %s", c.Profile, c.Src, b, cv, cw)
			return
		}
	default:
		j1, e1 := v.MarshalJSON()
		j2, e2 := w.MarshalJSON()
		same := bytes.Equal(j1, j2)
		if !same && e1 == nil && e2 == nil {
			// numbers are compared by value and kind (-0 and 0 are the same number)
			x, ex := dgen.ParseJSON(j1)
			y, ey := dgen.ParseJSON(j2)
			same = ex == nil && ey == nil && dgen.Diff(x, y, false, true) == ""
		}
		if (e1 == nil) != (e2 == nil) || !same {
			res.Fail = fmt.Sprintf("printed text denotes different data (profile %s)\nsrc: %s\nout: %s\n%s %v\n%s %v", c.Profile, c.Src, b, j1, e1, j2, e2)
			return
		}
	}
	// fill both sides with the witness data: expressions that stayed incomplete must mean the same
	if c.Witness != "" && c.Path == "" && (c.Profile == "def" || c.Profile == "all" || c.Profile == "hidden" || c.Profile == "docs") {
		fv := v.Unify(v.Context().CompileString(c.Witness))
		fw := w.Unify(w.Context().CompileString(c.Witness))
		if a, b := canon.Of(fv, 0), canon.Of(fw, 0); a != b {
			res.Fail = fmt.Sprintf("after unifying with the witness %s the printed text means something else (profile %s)\nsrc: %s\nout: %s\ncanon(v & witness): %s\ncanon(w & witness): %s", c.Witness, c.Profile, c.Src, b, a, b)
			return
		}
		res.Classes = append(res.Classes, "filled-with-witness")
	}
	res.NonTrivial = !concrete || strings.Contains(c.Src, " | ") || strings.Contains(c.Src, "close(") || strings.Contains(c.Src, "[string]") || strings.Contains(c.Src, "\\(") || strings.Contains(c.Src, " + ")
	res.Key = c.Src + "\x00" + c.Profile + "\x00" + c.Path
	return
}

// sameLabelNested reports a field nested (at any depth) inside a field of the same name
// while referring to a sibling: known finding F32 (let hoisted to the wrong scope).
func sameLabelNested(w *pgen.W, outer map[string]bool) bool { return pgen.SameLabelNested(w, outer) }

func gen(t *rapid.T) Case {
	g := &pgen.G{T: t, Tier: tier(), F: pgen.FRefTypes | pgen.FListComp | pgen.FStructDisj | pgen.FSelectors | pgen.FDerived}
	w := pgen.GenStructW(t, 2)
	concrete := rapid.IntRange(0, 3).Draw(t, "concrete") > 0
	st := g.Program(w, concrete)
	c := Case{Witness: pgen.WitnessCUE(w), Src: st.Body(), Profile: rapid.SampledFrom([]string{"def", "all", "final", "concrete", "docs", "hidden"}).Draw(t, "profile")}
	if rapid.IntRange(0, 3).Draw(t, "sub") == 0 {
		if ps := pgen.StructPaths(w); len(ps) > 0 {
			c.Path = rapid.SampledFrom(ps).Draw(t, "path")
		}
	}
	if excl && sameLabelNested(w, map[string]bool{}) {
		c.Profile = "excluded-F32"
	}
	return c
}

func TestRoundTrip(t *testing.T) {
	evid.Main(t, evid.Check[Case]{Name: "roundtrip", Gen: gen, Journal: true, Run: func(c Case) evid.Result {
		if c.Profile == "excluded-F32" {
			return evid.Result{Skip: true, Excluded: "NoSameLabelNestedInItself(F32)"}
		}
		return run(c)
	}})
}

// TestCorpus: every evaluable corpus file of the repository (no imports) in every profile.
func TestCorpus(t *testing.T) {
	shard, n := evid.Shard()
	files := corpus.Files(3000)
	evid.Enumerate(t, evid.Check[Case]{Name: "corpus", Journal: true, Run: func(c Case) evid.Result {
		r := run(c)
		if r.Fail != "" && excl {
			// the corpus contains many deliberately odd files; failures on it are listed in
			// evidence (triage list), the generated search is what is gated
			evid.Count("corpus_failures", 1)
			return evid.Result{Skip: true, Classes: []string{"corpus-failure"}, Note: r.Fail}
		}
		return r
	}}, func(yield func(Case) bool) {
		i := 0
		for _, f := range files {
			if bytes.Contains(f.Data, []byte("import")) || bytes.Contains(f.Data, []byte("@")) || bytes.Contains(f.Data, []byte("#!")) {
				continue
			}
			for _, p := range []string{"def", "final"} {
				i++
				if i%n != shard {
					continue
				}
				if !yield(Case{Src: string(f.Data), Profile: p}) {
					return
				}
			}
		}
	}, true)
}
