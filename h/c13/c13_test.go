// Package c13: JSON Schema translation preserves which instances are valid.
package c13

import (
	"bufio"
	"bytes"
	"encoding/json"
	"fmt"
	"io"
	"math/big"
	"os"
	"os/exec"
	"strconv"
	"strings"
	"sync"
	"testing"

	"cuelang.org/go/cue"
	"cuelang.org/go/cue/cuecontext"
	"cuelang.org/go/cue/format"
	"cuelang.org/go/encoding/jsonschema"
	"cuelang.org/go/verifh/evid"
	"pgregory.net/rapid"
)

var excl = os.Getenv("VERIF_MODE") != "replay"

type J = map[string]any

type Case struct {
	Schema    json.RawMessage
	Instances []json.RawMessage
}

var propNames = []string{"a", "b", "ab"}

func scalarConst(t *rapid.T) any {
	return rapid.SampledFrom([]any{0, 1, 2, 1.5, "a", "ab", true, false, nil}).Draw(t, "const")
}

// compositeConsts: const/enum values with structure (objects inside arrays, nesting, empties):
// equality with such a value is exact in JSON Schema - no extra or missing member anywhere.
var compositeConsts = []string{`[{"a":1}]`, `{"a":1}`, `[1,"a"]`, `[]`, `{}`, `{"a":{"b":null}}`, `[[1]]`, `[{"a":1},{"b":2}]`, `{"a":[1,2]}`, `[{}]`, `{"a":1,"b":"a"}`, `[null]`, `[1,{"ab":[]}]`}

func constValue(t *rapid.T, rootish bool) any {
	if rapid.IntRange(0, 2).Draw(t, "cc") == 0 {
		v, _ := decode([]byte(rapid.SampledFrom(compositeConsts).Draw(t, "cconst")))
		if excl && !rootish && underProps == 0 && containsObject(v) {
			// F70 family: below items/additionalProperties/combinators of the root schema the closed
			// structs of an object-bearing const end up in what is embedded at file level, where
			// closedness is not enforced; such values are generated at the root and below properties
			return scalarConst(t)
		}
		if _, obj := v.(map[string]any); obj && rootish && excl {
			// known finding F70: an object-valued const/enum that applies to the root instance becomes a
			// closed struct embedded at file level, whose closedness is not enforced
			return scalarConst(t)
		}
		return v
	}
	return scalarConst(t)
}

// tightenedByFloat64 reports whether some numeric bound of the schema becomes stricter when it is
// rounded to a float64 and printed with Go's shortest formatting, which is how Generate emits bounds
// (known finding F80).
func tightenedByFloat64(s any) bool {
	switch x := s.(type) {
	case map[string]any:
		for k, v := range x {
			n, isNum := v.(json.Number)
			switch {
			case isNum && (k == "minimum" || k == "exclusiveMinimum" || k == "maximum" || k == "exclusiveMaximum"):
				exact, ok := new(big.Rat).SetString(string(n))
				f, err := n.Float64()
				if !ok || err != nil {
					return true
				}
				printed, ok := new(big.Rat).SetString(fmt.Sprint(f))
				if !ok {
					return true
				}
				c := printed.Cmp(exact)
				if (strings.HasSuffix(k, "inimum") && c > 0) || (strings.HasSuffix(k, "aximum") && c < 0) {
					return true
				}
			case tightenedByFloat64(v):
				return true
			}
		}
	case []any:
		for _, v := range x {
			if tightenedByFloat64(v) {
				return true
			}
		}
	}
	return false
}

// bigBounds: bounds at the edges of int64, float64's integer range and beyond
var bigBounds = []string{"9223372036854775807", "9223372036854775808", "-9223372036854775808", "-9223372036854775809", "9007199254740993", "18446744073709551615", "1e19", "4294967296", "-1"}

func bound(t *rapid.T, small []any, label string) any {
	if rapid.IntRange(0, 5).Draw(t, label+"big") == 0 {
		return json.Number(rapid.SampledFrom(bigBounds).Draw(t, label+"bb"))
	}
	return rapid.SampledFrom(small).Draw(t, label)
}

// underProps counts the properties keywords above the schema being generated.
var underProps int

var typeSets = [][]string{{"null"}, {"boolean"}, {"integer"}, {"number"}, {"string"}, {"array"}, {"object"}, {"string", "number"}, {"number", "null"}, {"boolean", "object"}, {"integer", "string"}, {"null", "array"}, {"string", "boolean"}}

// typeOnlyBranches: three or four branches that consist of a type keyword only (the importer
// special-cases them), overlapping or not, adjacent or not
func typeOnlyBranches(t *rapid.T) []any {
	var bs []any
	for i := 0; i < rapid.IntRange(3, 4).Draw(t, "ntb"); i++ {
		ts := rapid.SampledFrom(typeSets).Draw(t, "tset")
		if len(ts) == 1 {
			bs = append(bs, J{"type": ts[0]})
		} else {
			bs = append(bs, J{"type": []any{ts[0], ts[1]}})
		}
	}
	return bs
}

func tier() int {
	n, _ := strconv.Atoi(os.Getenv("VERIF_TIER_MAX"))
	return n
}

func schema(t *rapid.T, depth int, defs []string) any { return schemaR(t, depth, defs, false) }

// schemaR: rootish is true for the root schema and for schemas that apply to the root instance
// through a root-level combinator.
func schemaR(t *rapid.T, depth int, defs []string, rootish bool) any {
	s := J{}
	nk := rapid.IntRange(1, 3).Draw(t, "nk")
	for i := 0; i < nk; i++ {
		maxk := 21
		if tier() >= 1 {
			maxk = 22 // if/then/else only from tier 1 (known finding F29)
		}
		k := rapid.IntRange(0, maxk).Draw(t, "kw")
		if depth <= 0 && k >= 12 {
			k = k % 12
		}
		switch k {
		case 0:
			s["type"] = rapid.SampledFrom([]string{"null", "boolean", "integer", "number", "string", "array", "object"}).Draw(t, "ty")
		case 1:
			t1 := rapid.SampledFrom([]string{"null", "boolean", "integer", "string"}).Draw(t, "ty1")
			t2 := rapid.SampledFrom([]string{"number", "array", "object"}).Draw(t, "ty2")
			if t1 == "integer" && t2 == "number" && excl {
				t2 = "array" // known finding F18: ["integer","number"] rejects 1.5
			}
			s["type"] = []any{t1, t2}
		case 2:
			e1, e2 := constValue(t, rootish), constValue(t, rootish)
			if excl && typeOf(e1) == typeOf(e2) && (typeOf(e1) == "array" || typeOf(e1) == "object") {
				// known finding F81: an enum with two object-bearing values of one kind leaves an instance
				// that lacks a member of the other value unresolved (required field of the other disjunct)
				e2 = scalarConst(t)
			}
			s["enum"] = []any{e1, e2}
		case 3:
			s["const"] = constValue(t, rootish)
		case 4:
			s["minimum"] = bound(t, []any{0, 1, 2, 1.5}, "min")
		case 5:
			s["maximum"] = bound(t, []any{0, 1, 2, 1.5}, "max")
		case 6:
			s[rapid.SampledFrom([]string{"exclusiveMinimum", "exclusiveMaximum"}).Draw(t, "xk")] = bound(t, []any{0, 1, 2}, "xmin")
		case 7:
			s["minLength"] = rapid.IntRange(0, 2).Draw(t, "minl")
		case 8:
			s["maxLength"] = rapid.IntRange(0, 2).Draw(t, "maxl")
		case 9:
			s["pattern"] = rapid.SampledFrom([]string{"^a", "b$", "^[ab]+$"}).Draw(t, "pat")
		case 10:
			s["multipleOf"] = rapid.SampledFrom([]any{2, 3, 0.5}).Draw(t, "mul")
		case 11:
			s["required"] = []any{rapid.SampledFrom(propNames).Draw(t, "req")}
		case 12:
			p := J{}
			underProps++
			for j := 0; j < rapid.IntRange(1, 2).Draw(t, "np"); j++ {
				p[rapid.SampledFrom(propNames).Draw(t, "pn")] = schema(t, depth-1, defs)
			}
			underProps--
			s["properties"] = p
		case 13:
			if rapid.Bool().Draw(t, "apb") && !(excl && rootish) {
				// known finding F70: closedness of the file-level embedding is not enforced
				s["additionalProperties"] = false
			} else {
				s["additionalProperties"] = schema(t, depth-1, defs)
			}
		case 14:
			// pattern constraints are emitted inside an embedded literal, where closedness is not enforced either (F70/F27)
			s["patternProperties"] = J{rapid.SampledFrom([]string{"^a", "b$"}).Draw(t, "pp"): schemaR(t, depth-1, defs, true)}
		case 15:
			s["items"] = schema(t, depth-1, defs)
		case 16:
			s[rapid.SampledFrom([]string{"minItems", "maxItems", "minProperties", "maxProperties"}).Draw(t, "mm")] = rapid.IntRange(0, 2).Draw(t, "mmv")
		case 17:
			s["uniqueItems"] = true
		case 18:
			comb := rapid.SampledFrom([]string{"allOf", "anyOf", "oneOf"}).Draw(t, "comb")
			if comb != "allOf" && rapid.IntRange(0, 2).Draw(t, "typeonly") == 0 {
				s[comb] = typeOnlyBranches(t)
			} else {
				s[comb] = []any{schemaR(t, depth-1, defs, rootish), schemaR(t, depth-1, defs, rootish)}
			}
		case 19:
			ns := schemaR(t, depth-1, defs, rootish)
			if m, ok := ns.(J); ok && excl {
				// known finding F85: the negation of a schema that the importer recognises as unsatisfiable
				// (const/enum contradicting type) becomes matchN(0, [error("disallowed")]), which rejects
				// every instance instead of accepting every instance
				_, c1 := m["const"]
				_, c2 := m["enum"]
				if c1 || c2 {
					delete(m, "type")
				}
			}
			s["not"] = ns
		case 20:
			cs := schema(t, depth-1, defs)
			if excl {
				// known finding F71: list.MatchN counts an element whose check ends in an incomplete error
				// as a match, so below contains (at any depth) minProperties/maxProperties, required and
				// object-valued const/enum (imported with required fields) are not enforced:
				// [{}] passes contains:{minProperties:1} and contains:{anyOf:[{required:["b"]}]}
				stripIncompleteProne(cs)
			}
			s["contains"] = cs
		case 21:
			if len(defs) > 0 && depth < 2 {
				// known findings F66/F67: a $ref at the root, or next to sibling keywords, is translated
				// wrongly; in the gated search a $ref is the only keyword of a non-root subschema
				r := "#/$defs/" + rapid.SampledFrom(defs).Draw(t, "ref")
				if excl {
					return J{"$ref": r}
				}
				s["$ref"] = r
			}
		case 22:
			s["if"] = schema(t, depth-1, defs)
			if rapid.Bool().Draw(t, "then") {
				s["then"] = schema(t, depth-1, defs)
			}
			if rapid.Bool().Draw(t, "else") {
				s["else"] = schema(t, depth-1, defs)
			}
		}
	}
	if excl && rootish {
		// known finding F70 (closedness of what is embedded at file level is not enforced), second
		// form: a const/enum value that contains an object anywhere, applied to the root instance next
		// to any other keyword, e.g. {"enum":[[{}],false],"items":{}} accepts [{"c":1}]. Such values
		// are kept only as the sole keyword of the root schema.
		alone := depth == 2
		for k := range s {
			if k != "const" && k != "enum" {
				alone = false
			}
		}
		if !alone {
			if containsObject(s["const"]) {
				s["const"] = []any{1, "a"}
			}
			if e, ok := s["enum"].([]any); ok {
				for i := range e {
					if containsObject(e[i]) {
						e[i] = i
					}
				}
			}
		}
	}
	if _, pp := s["patternProperties"]; excl && pp {
		// known findings F70/F27: pattern constraints are emitted inside an embedded literal, and
		// closedness of a field that such a pattern also matches is not enforced
		// ({"patternProperties":{"^a":{}},"properties":{"ab":{"additionalProperties":false}}} accepts
		// {"ab":{"x":0}}): next to patternProperties the sibling subschemas close nothing
		stripClosed(s["properties"])
		stripClosed(s["additionalProperties"])
	}
	if excl {
		// known finding F29: required + additionalProperties:false without properties accepts the required name
		if _, r := s["required"]; r {
			if ap, ok := s["additionalProperties"].(bool); ok && !ap {
				if _, p := s["properties"]; !p {
					delete(s, "additionalProperties")
				}
			}
		}
	}
	return s
}

var nums = []any{0, 1, 2, 3, -1, 1.5, 2.5, 10, 0.5, 4}
var strs = []any{"", "a", "ab", "abc", "b", "ba", "é"}

func instance(t *rapid.T, depth int) any {
	k := rapid.IntRange(0, 7).Draw(t, "ik")
	if depth <= 0 && k >= 6 {
		k = k % 6
	}
	switch k {
	case 0:
		return nil
	case 1:
		return rapid.Bool().Draw(t, "b")
	case 2, 3:
		return rapid.SampledFrom(nums).Draw(t, "n")
	case 4, 5:
		return rapid.SampledFrom(strs).Draw(t, "s")
	case 6:
		n := rapid.IntRange(0, 3).Draw(t, "ln")
		l := []any{}
		for i := 0; i < n; i++ {
			l = append(l, instance(t, depth-1))
		}
		return l
	default:
		o := J{}
		n := rapid.IntRange(0, 3).Draw(t, "on")
		for i := 0; i < n; i++ {
			o[rapid.SampledFrom([]string{"a", "b", "ab", "c"}).Draw(t, "ok")] = instance(t, depth-1)
		}
		return o
	}
}

func gen(t *rapid.T) Case {
	var defs []string
	root := J{}
	if rapid.IntRange(0, 3).Draw(t, "hasdefs") == 0 {
		d := J{}
		for _, n := range []string{"x", "y"}[:rapid.IntRange(1, 2).Draw(t, "ndefs")] {
			d[n] = schema(t, 1, nil) // definitions do not refer to each other: acyclic
			defs = append(defs, n)
		}
		root["$defs"] = d
	}
	for k, v := range schemaR(t, 2, defs, true).(J) {
		root[k] = v
	}
	root["$schema"] = "https://json-schema.org/draft/2020-12/schema"
	sb, _ := json.Marshal(root)
	c := Case{Schema: sb}
	var consts []any
	collectConsts(root, &consts)
	for i := 0; i < 8; i++ {
		var in any
		if len(consts) > 0 && rapid.IntRange(0, 2).Draw(t, "fromconst") == 0 {
			in = mutate(t, clone(rapid.SampledFrom(consts).Draw(t, "constinst")))
		} else {
			in = instance(t, 2)
		}
		ib, _ := json.Marshal(in)
		c.Instances = append(c.Instances, ib)
	}
	return c
}

// collectConsts gathers the const/enum values and the numeric bounds of a schema: instances are
// biased towards them and their neighbours.
func collectConsts(s any, out *[]any) {
	switch x := s.(type) {
	case J:
		for k, v := range x {
			switch k {
			case "const":
				*out = append(*out, v)
			case "enum":
				*out = append(*out, v.([]any)...)
			case "minimum", "maximum", "exclusiveMinimum", "exclusiveMaximum":
				*out = append(*out, v)
			default:
				collectConsts(v, out)
			}
		}
	case []any:
		for _, v := range x {
			collectConsts(v, out)
		}
	}
}

func containsObject(x any) bool {
	switch v := x.(type) {
	case map[string]any:
		return true
	case []any:
		for _, e := range v {
			if containsObject(e) {
				return true
			}
		}
	}
	return false
}

// stripClosed removes everything that closes a struct from the schema x, at any depth.
func stripClosed(x any) {
	switch v := x.(type) {
	case map[string]any:
		if ap, ok := v["additionalProperties"].(bool); ok && !ap {
			delete(v, "additionalProperties")
		}
		if containsObject(v["const"]) {
			v["const"] = 1
		}
		if e, ok := v["enum"].([]any); ok {
			for i := range e {
				if containsObject(e[i]) {
					e[i] = i
				}
			}
		}
		for _, sub := range v {
			stripClosed(sub)
		}
	case []any:
		for _, sub := range v {
			stripClosed(sub)
		}
	}
}

func stripIncompleteProne(x any) {
	switch v := x.(type) {
	case map[string]any:
		delete(v, "minProperties")
		delete(v, "maxProperties")
		delete(v, "required")
		if containsObject(v["const"]) {
			v["const"] = 1
		}
		if e, ok := v["enum"].([]any); ok {
			for i := range e {
				if containsObject(e[i]) {
					e[i] = i
				}
			}
		}
		for _, sub := range v {
			stripIncompleteProne(sub)
		}
	case []any:
		for _, sub := range v {
			stripIncompleteProne(sub)
		}
	}
}

func clone(x any) any {
	b, _ := json.Marshal(x)
	v, _ := decode(b)
	return v
}

// mutate returns x or a near miss of it: one member added, removed or changed somewhere, an
// element appended, a number moved by one.
func mutate(t *rapid.T, x any) any {
	if n, ok := x.(json.Number); ok {
		// integral numbers are spelled as integers: the importer distinguishes 1e19 and 1.0 from
		// integers where JSON Schema does not (documented deviation, finding F13)
		if r, ok := new(big.Rat).SetString(string(n)); ok && r.IsInt() {
			x = json.Number(r.Num().String())
		}
	}
	switch rapid.IntRange(0, 3).Draw(t, "mut") {
	case 0:
		return x
	}
	switch v := x.(type) {
	case map[string]any:
		switch k := rapid.IntRange(0, 2).Draw(t, "omut"); {
		case k == 0:
			v[rapid.SampledFrom([]string{"c", "x", "ab"}).Draw(t, "newkey")] = scalarConst(t)
		case k == 1 && len(v) > 0:
			for key := range v {
				if len(v) == 1 || rapid.Bool().Draw(t, "del-"+key) {
					delete(v, key)
					break
				}
			}
		default:
			for key := range v {
				v[key] = mutate(t, v[key])
				break
			}
		}
		return v
	case []any:
		switch k := rapid.IntRange(0, 2).Draw(t, "lmut"); {
		case k == 0:
			return append(v, scalarConst(t))
		case k == 1 && len(v) > 0:
			return v[:len(v)-1]
		case len(v) > 0:
			i := rapid.IntRange(0, len(v)-1).Draw(t, "li")
			v[i] = mutate(t, v[i])
		}
		return v
	case json.Number:
		r, ok := new(big.Rat).SetString(string(v))
		if !ok {
			return v
		}
		d := rapid.SampledFrom([]int64{-1, 1, -2, 2}).Draw(t, "delta")
		r.Add(r, big.NewRat(d, 1))
		if r.IsInt() {
			return json.Number(r.Num().String())
		}
		f, _ := r.Float64()
		return f
	}
	return scalarConst(t)
}

func decode(b []byte) (any, error) {
	d := json.NewDecoder(bytes.NewReader(b))
	d.UseNumber()
	var x any
	err := d.Decode(&x)
	return x, err
}

// ---- python cross-check of the Go validator (optional) ----------------------------------------

var (
	pyOnce sync.Once
	pyIn   io.WriteCloser
	pyOut  *bufio.Reader
	pyMu   sync.Mutex
)

const pyProg = `
import json, sys
from jsonschema import Draft202012Validator as V
for line in sys.stdin:
    r = json.loads(line)
    try:
        v = V(r['schema'])
        print(json.dumps([v.is_valid(i) for i in r['instances']]), flush=True)
    except Exception as e:
        print(json.dumps(None), flush=True)
`

func pyVerdicts(schema json.RawMessage, insts []json.RawMessage) []bool {
	pyOnce.Do(func() {
		cmd := exec.Command("python3-vt", "-W", "ignore", "-u", "-c", pyProg)
		in, err1 := cmd.StdinPipe()
		out, err2 := cmd.StdoutPipe()
		if err1 != nil || err2 != nil || cmd.Start() != nil {
			return
		}
		pyIn, pyOut = in, bufio.NewReaderSize(out, 1<<20)
	})
	if pyIn == nil {
		return nil
	}
	pyMu.Lock()
	defer pyMu.Unlock()
	req, _ := json.Marshal(map[string]any{"schema": schema, "instances": insts})
	if _, err := pyIn.Write(append(req, '\n')); err != nil {
		return nil
	}
	line, err := pyOut.ReadBytes('\n')
	if err != nil {
		return nil
	}
	var res []bool
	if json.Unmarshal(line, &res) != nil {
		return nil
	}
	return res
}

func run(c Case) (res evid.Result) {
	defer func() {
		if r := recover(); r != nil {
			res.Fail = fmt.Sprintf("panic: %v\nschema: %s", r, c.Schema)
		}
	}()
	sch, err := decode(c.Schema)
	if err != nil {
		res.Skip = true
		return
	}
	root, _ := sch.(map[string]any)
	val := &validator{root: root}
	ctx := cuecontext.New()
	sv := ctx.CompileBytes(c.Schema)
	f, err := jsonschema.Extract(sv, &jsonschema.Config{})
	if err != nil {
		res.Classes = []string{"rejected-at-import"}
		res.Skip = true // allowed by the property: translation failures are reported at import time
		evid.Count("rejected_at_import", 1)
		return
	}
	cv := ctx.BuildFile(f)
	if cv.Err() != nil {
		res.Classes = []string{"rejected-at-import"}
		res.Skip = true
		evid.Count("rejected_at_build", 1)
		return
	}
	cueText, _ := format.Node(f)
	var want []bool
	for _, ib := range c.Instances {
		in, _ := decode(ib)
		want = append(want, val.valid(root, in))
	}
	if py := pyVerdicts(c.Schema, c.Instances); py != nil {
		evid.Count("cross_checked_with_python_jsonschema", 1)
		for i := range py {
			if py[i] != want[i] {
				// the two oracles disagree: my validator (or python's) is wrong, not CUE
				evid.Count("oracle_disagreements", 1)
				res.Skip = true
				res.Classes = []string{"oracle-disagreement"}
				res.Note = fmt.Sprintf("schema %s instance %s: go=%v python=%v", c.Schema, c.Instances[i], want[i], py[i])
				return
			}
		}
	}
	nValid, nInvalid := 0, 0
	for i, ib := range c.Instances {
		iv := ctx.CompileBytes(ib)
		got := cv.Unify(iv).Validate(cue.Concrete(true)) == nil
		if got != want[i] {
			res.Fail = fmt.Sprintf("schema %s\ninstance %s: valid per JSON Schema = %v, accepted by the generated CUE = %v\ngenerated CUE:\n%s", c.Schema, ib, want[i], got, cueText)
			return
		}
		if want[i] {
			nValid++
		} else {
			nInvalid++
		}
	}
	// reverse direction: the schema generated back from the CUE must not reject what the CUE accepts
	// (Generate is documented as best-effort and as permissive as possible, so only this direction is claimed)
	_, hasDefs := root["$defs"]
	if excl && (bytes.Contains(c.Schema, []byte(`"not"`)) || bytes.Contains(c.Schema, []byte(`"oneOf"`)) || bytes.Contains(c.Schema, []byte(`"if"`))) {
		// known finding F68: Generate approximates permissively, which under not/oneOf/if turns into rejecting valid instances
		res.Excluded = "NoRegenerationUnderNegation(F68)"
	} else if excl && tightenedByFloat64(sch) {
		// known finding F80: Generate emits numeric bounds through float64 (16-17 significant digits), so a
		// minimum just below a float64 value (2^63-1) comes back larger and rejects valid instances
		res.Excluded = "NoRegenerationOfBoundsTightenedByFloat64(F80)"
	} else if excl && hasDefs {
		// known finding F65: for a value with definitions next to an embedded non-struct value, Generate adds
		// "type":"object" at the root and so rejects the non-object alternatives
		res.Excluded = "NoRegenerationWithDefs(F65)"
	} else if g, err := jsonschema.Generate(cv, nil); err == nil {
		if gb, err := ctx.BuildExpr(g).MarshalJSON(); err == nil {
			if gs, err := decode(gb); err == nil && knownKeywords(gs) {
				groot, _ := gs.(map[string]any)
				gval := &validator{root: groot}
				for i, ib := range c.Instances {
					in, _ := decode(ib)
					if want[i] && !gval.valid(gs, in) {
						res.Fail = fmt.Sprintf("schema %s\ninstance %s is valid, but the JSON Schema generated back from the CUE rejects it\nregenerated: %s\ngenerated CUE:\n%s", c.Schema, ib, gb, cueText)
						return
					}
				}
				res.Classes = append(res.Classes, "regenerated")
			} else {
				res.Classes = append(res.Classes, "regenerated-outside-subset")
			}
		}
	}
	nk := 0
	comb := false
	for k := range root {
		if k != "$schema" {
			nk++
		}
		switch k {
		case "allOf", "anyOf", "oneOf", "not", "properties", "additionalProperties", "patternProperties", "required", "$ref", "if":
			comb = true
		}
	}
	res.NonTrivial = nk >= 2 && comb && nValid > 0 && nInvalid > 0
	res.Classes = append(res.Classes, "translated")
	return
}

func TestSchema(t *testing.T) {
	evid.Main(t, evid.Check[Case]{Name: "schema", Gen: gen, Run: run})
}

var _ = strings.Contains
