package c13

import (
	"encoding/json"
	"math/big"
	"regexp"
	"sort"
	"strings"
	"unicode/utf8"
)

// A small JSON Schema (draft 2020-12) validator written from the specification
// for exactly the keyword subset the generator uses. It is the oracle of this
// check; python jsonschema is a cross-check of this code, not of CUE.

func num(x any) (*big.Rat, bool) {
	n, ok := x.(json.Number)
	if !ok {
		return nil, false
	}
	r, ok := new(big.Rat).SetString(string(n))
	return r, ok
}

func typeOf(x any) string {
	switch v := x.(type) {
	case nil:
		return "null"
	case bool:
		return "boolean"
	case json.Number:
		if r, ok := num(v); ok && r.IsInt() {
			return "integer"
		}
		return "number"
	case string:
		return "string"
	case []any:
		return "array"
	case map[string]any:
		return "object"
	}
	return "?"
}

func jsonEqual(a, b any) bool {
	ra, oka := num(a)
	rb, okb := num(b)
	if oka || okb {
		return oka && okb && ra.Cmp(rb) == 0
	}
	switch x := a.(type) {
	case nil:
		return b == nil
	case bool:
		y, ok := b.(bool)
		return ok && x == y
	case string:
		y, ok := b.(string)
		return ok && x == y
	case []any:
		y, ok := b.([]any)
		if !ok || len(x) != len(y) {
			return false
		}
		for i := range x {
			if !jsonEqual(x[i], y[i]) {
				return false
			}
		}
		return true
	case map[string]any:
		y, ok := b.(map[string]any)
		if !ok || len(x) != len(y) {
			return false
		}
		for k, v := range x {
			w, ok := y[k]
			if !ok || !jsonEqual(v, w) {
				return false
			}
		}
		return true
	}
	return false
}

type validator struct {
	root map[string]any
}

func (v *validator) resolve(ref string) (any, bool) {
	if !strings.HasPrefix(ref, "#/$defs/") {
		return nil, false
	}
	defs, _ := v.root["$defs"].(map[string]any)
	s, ok := defs[strings.TrimPrefix(ref, "#/$defs/")]
	return s, ok
}

func (v *validator) valid(schema any, inst any) bool {
	switch s := schema.(type) {
	case bool:
		return s
	case map[string]any:
		return v.validObj(s, inst)
	}
	return false
}

func (v *validator) validObj(s map[string]any, inst any) bool {
	ty := typeOf(inst)
	if ref, ok := s["$ref"].(string); ok {
		t, ok := v.resolve(ref)
		if !ok || !v.valid(t, inst) {
			return false
		}
	}
	if t, ok := s["type"]; ok {
		match := func(name string) bool {
			return name == ty || (name == "number" && ty == "integer")
		}
		switch tt := t.(type) {
		case string:
			if !match(tt) {
				return false
			}
		case []any:
			okAny := false
			for _, x := range tt {
				if n, _ := x.(string); match(n) {
					okAny = true
				}
			}
			if !okAny {
				return false
			}
		}
	}
	if e, ok := s["enum"].([]any); ok {
		found := false
		for _, x := range e {
			if jsonEqual(x, inst) {
				found = true
			}
		}
		if !found {
			return false
		}
	}
	if c, ok := s["const"]; ok {
		if !jsonEqual(c, inst) {
			return false
		}
	}
	if r, ok := num(inst); ok {
		if m, ok := num(s["minimum"]); ok && r.Cmp(m) < 0 {
			return false
		}
		if m, ok := num(s["maximum"]); ok && r.Cmp(m) > 0 {
			return false
		}
		if m, ok := num(s["exclusiveMinimum"]); ok && r.Cmp(m) <= 0 {
			return false
		}
		if m, ok := num(s["exclusiveMaximum"]); ok && r.Cmp(m) >= 0 {
			return false
		}
		if m, ok := num(s["multipleOf"]); ok && m.Sign() != 0 {
			if q := new(big.Rat).Quo(r, m); !q.IsInt() {
				return false
			}
		}
	}
	if str, ok := inst.(string); ok {
		n := utf8.RuneCountInString(str)
		if m, ok := num(s["minLength"]); ok && big.NewRat(int64(n), 1).Cmp(m) < 0 {
			return false
		}
		if m, ok := num(s["maxLength"]); ok && big.NewRat(int64(n), 1).Cmp(m) > 0 {
			return false
		}
		if p, ok := s["pattern"].(string); ok {
			if re, err := regexp.Compile(p); err == nil && !re.MatchString(str) {
				return false
			}
		}
	}
	if obj, ok := inst.(map[string]any); ok {
		if req, ok := s["required"].([]any); ok {
			for _, r := range req {
				if name, _ := r.(string); name != "" {
					if _, present := obj[name]; !present {
						return false
					}
				}
			}
		}
		if m, ok := num(s["minProperties"]); ok && big.NewRat(int64(len(obj)), 1).Cmp(m) < 0 {
			return false
		}
		if m, ok := num(s["maxProperties"]); ok && big.NewRat(int64(len(obj)), 1).Cmp(m) > 0 {
			return false
		}
		props, _ := s["properties"].(map[string]any)
		pprops, _ := s["patternProperties"].(map[string]any)
		addl, hasAddl := s["additionalProperties"]
		var keys []string
		for k := range obj {
			keys = append(keys, k)
		}
		sort.Strings(keys)
		for _, k := range keys {
			val := obj[k]
			covered := false
			if ps, ok := props[k]; ok {
				covered = true
				if !v.valid(ps, val) {
					return false
				}
			}
			for pat, ps := range pprops {
				if re, err := regexp.Compile(pat); err == nil && re.MatchString(k) {
					covered = true
					if !v.valid(ps, val) {
						return false
					}
				}
			}
			if !covered && hasAddl && !v.valid(addl, val) {
				return false
			}
		}
	}
	if arr, ok := inst.([]any); ok {
		if m, ok := num(s["minItems"]); ok && big.NewRat(int64(len(arr)), 1).Cmp(m) < 0 {
			return false
		}
		if m, ok := num(s["maxItems"]); ok && big.NewRat(int64(len(arr)), 1).Cmp(m) > 0 {
			return false
		}
		if it, ok := s["items"]; ok {
			for _, e := range arr {
				if !v.valid(it, e) {
					return false
				}
			}
		}
		if u, _ := s["uniqueItems"].(bool); u {
			for i := range arr {
				for j := i + 1; j < len(arr); j++ {
					if jsonEqual(arr[i], arr[j]) {
						return false
					}
				}
			}
		}
		if c, ok := s["contains"]; ok {
			found := false
			for _, e := range arr {
				if v.valid(c, e) {
					found = true
				}
			}
			if !found {
				return false
			}
		}
	}
	if l, ok := s["allOf"].([]any); ok {
		for _, x := range l {
			if !v.valid(x, inst) {
				return false
			}
		}
	}
	if l, ok := s["anyOf"].([]any); ok {
		okAny := false
		for _, x := range l {
			if v.valid(x, inst) {
				okAny = true
			}
		}
		if !okAny {
			return false
		}
	}
	if l, ok := s["oneOf"].([]any); ok {
		n := 0
		for _, x := range l {
			if v.valid(x, inst) {
				n++
			}
		}
		if n != 1 {
			return false
		}
	}
	if n, ok := s["not"]; ok {
		if v.valid(n, inst) {
			return false
		}
	}
	if cond, ok := s["if"]; ok {
		if v.valid(cond, inst) {
			if th, ok := s["then"]; ok && !v.valid(th, inst) {
				return false
			}
		} else if el, ok := s["else"]; ok && !v.valid(el, inst) {
			return false
		}
	}
	return true
}

// knownKeywords reports whether every keyword of the schema (recursively) is in the subset of this validator.
func knownKeywords(schema any) bool {
	known := map[string]bool{"$schema": true, "$defs": true, "$ref": true, "type": true, "enum": true, "const": true, "minimum": true, "maximum": true, "exclusiveMinimum": true, "exclusiveMaximum": true, "multipleOf": true,
		"minLength": true, "maxLength": true, "pattern": true, "properties": true, "required": true, "additionalProperties": true, "patternProperties": true, "minProperties": true, "maxProperties": true,
		"items": true, "minItems": true, "maxItems": true, "uniqueItems": true, "contains": true, "allOf": true, "anyOf": true, "oneOf": true, "not": true, "if": true, "then": true, "else": true, "title": true, "description": true}
	switch s := schema.(type) {
	case bool:
		return true
	case map[string]any:
		for k, v := range s {
			if !known[k] {
				return false
			}
			switch k {
			case "properties", "patternProperties", "$defs":
				if m, ok := v.(map[string]any); ok {
					for _, x := range m {
						if !knownKeywords(x) {
							return false
						}
					}
				}
			case "items", "contains", "not", "if", "then", "else", "additionalProperties":
				if !knownKeywords(v) {
					return false
				}
			case "allOf", "anyOf", "oneOf":
				if l, ok := v.([]any); ok {
					for _, x := range l {
						if !knownKeywords(x) {
							return false
						}
					}
				}
			}
		}
		return true
	}
	return false
}
