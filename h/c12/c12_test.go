// Package c12: cue export / cue import are inverse across JSON, YAML, TOML and CUE (through the CLI).
package c12

import (
	"bytes"
	"fmt"
	"os"
	"os/exec"
	"path/filepath"
	"strings"
	"testing"

	"cuelang.org/go/verifh/dgen"
	"cuelang.org/go/verifh/evid"
	toml "github.com/pelletier/go-toml/v2"
	yaml "go.yaml.in/yaml/v3"
	"pgregory.net/rapid"
)

var excl = os.Getenv("VERIF_MODE") != "replay"

type Case struct {
	Tree    *dgen.Node // root object
	Enc     string     // json yaml toml cue
	ViaFile bool       // -o out.<ext> instead of --out
	Escape  bool
	Expr    string // -e path ("" = whole package)
	Package bool   // package clause + package argument instead of file argument
	Split   bool   // two files
	Broken  string // "" | nonconcrete | error | tomlnull
	// Qualifier: a boolean tag of the output file type appended to the encoding (--out yaml+indentSequences=false);
	// it changes the layout only, never the data
	Qualifier string
	// Overwrite: with -o, the output file already exists and is longer than what is about to be
	// written (an earlier, larger export); --force must replace it completely
	Overwrite bool
}

func cueBin() string {
	if p := os.Getenv("VERIF_TOOL_CUE"); p != "" {
		return p
	}
	return "cue"
}

func run(dir string, args ...string) (string, string, int) {
	cmd := exec.Command(cueBin(), args...)
	cmd.Dir = dir
	cmd.Env = append(os.Environ(), "CUE_CACHE_DIR="+filepath.Join(dir, ".cache"), "HOME="+dir)
	var out, errb bytes.Buffer
	cmd.Stdout, cmd.Stderr = &out, &errb
	err := cmd.Run()
	code := 0
	if err != nil {
		code = -1
		if ee, ok := err.(*exec.ExitError); ok {
			code = ee.ExitCode()
		}
	}
	return out.String(), errb.String(), code
}

func scratch() string {
	base := os.Getenv("VERIF_SCRATCH")
	if base == "" {
		base = os.TempDir()
	}
	d, err := os.MkdirTemp(base, "c12-")
	if err != nil {
		panic(err)
	}
	return d
}

// fromYAML converts a yaml.v3 node (independent reader) to a tree.
func fromYAML(n *yaml.Node) (*dgen.Node, error) {
	switch n.Kind {
	case yaml.DocumentNode:
		if len(n.Content) != 1 {
			return nil, fmt.Errorf("document with %d nodes", len(n.Content))
		}
		return fromYAML(n.Content[0])
	case yaml.MappingNode:
		o := &dgen.Node{K: "object"}
		for i := 0; i+1 < len(n.Content); i += 2 {
			v, err := fromYAML(n.Content[i+1])
			if err != nil {
				return nil, err
			}
			o.O = append(o.O, &dgen.Field{K: n.Content[i].Value, V: v})
		}
		return o, nil
	case yaml.SequenceNode:
		l := &dgen.Node{K: "list"}
		for _, e := range n.Content {
			v, err := fromYAML(e)
			if err != nil {
				return nil, err
			}
			l.L = append(l.L, v)
		}
		return l, nil
	case yaml.ScalarNode:
		switch n.Tag {
		case "!!null":
			return &dgen.Node{K: "null"}, nil
		case "!!bool":
			return &dgen.Node{K: "bool", B: n.Value == "true"}, nil
		case "!!int":
			return &dgen.Node{K: "int", N: n.Value}, nil
		case "!!float":
			return &dgen.Node{K: "float", N: n.Value}, nil
		case "!!str":
			return &dgen.Node{K: "string", S: n.Value}, nil
		}
		return nil, fmt.Errorf("unexpected scalar tag %s for %q", n.Tag, n.Value)
	}
	return nil, fmt.Errorf("unexpected yaml node kind %v", n.Kind)
}

func fromAny(x any) *dgen.Node {
	switch v := x.(type) {
	case nil:
		return &dgen.Node{K: "null"}
	case bool:
		return &dgen.Node{K: "bool", B: v}
	case int64:
		return &dgen.Node{K: "int", N: fmt.Sprint(v)}
	case float64:
		s := fmt.Sprint(v)
		if !strings.ContainsAny(s, ".e") {
			s += ".0"
		}
		return &dgen.Node{K: "float", N: s}
	case string:
		return &dgen.Node{K: "string", S: v}
	case []any:
		l := &dgen.Node{K: "list"}
		for _, e := range v {
			l.L = append(l.L, fromAny(e))
		}
		return l
	case map[string]any:
		o := &dgen.Node{K: "object"}
		for k, e := range v {
			o.O = append(o.O, &dgen.Field{K: k, V: fromAny(e)})
		}
		return o
	}
	return &dgen.Node{K: "string", S: fmt.Sprintf("<unsupported %T>", x)}
}

func lookup(n *dgen.Node, key string) *dgen.Node {
	for _, f := range n.O {
		if f.K == key {
			return f.V
		}
	}
	return nil
}

func excludedTree(n *dgen.Node, enc string) string {
	ex := ""
	n.Walk(func(x *dgen.Node, isKey bool) {
		if x.K == "string" && ex == "" {
			if e := dgen.YAMLKnownBad(x.S, isKey); e != "" && (enc == "yaml" || isKey && strings.HasPrefix(e, "NFC")) {
				ex = e
			}
			if ex == "" && enc == "json" && strings.Contains(x.S, "\ufeff") {
				// known finding F23 (C10), seen through the CLI: cue export writes U+FEFF raw into a JSON
				// string and cue import rejects that file as invalid JSON
				ex = "NoByteOrderMarkInJSONString(F23)"
			}
		}
	})
	return ex
}

func runCase(c Case) (res evid.Result) {
	res.Classes = []string{"enc:" + c.Enc}
	if e := excludedTree(c.Tree, c.Enc); excl && e != "" {
		res.Skip, res.Excluded = true, e
		return
	}
	if excl {
		// known finding F83: cue import writes a leading key "package" or "import" unquoted, which the
		// parser reads as a package clause or import declaration: the imported file does not parse.
		// Region: the exported value is an object with such a key (it is the first one in some order).
		root := c.Tree
		if c.Expr != "" {
			if sub := lookup(c.Tree, c.Expr); sub != nil {
				root = sub
			}
		}
		for _, f := range root.O {
			if f.K == "package" || f.K == "import" {
				res.Skip, res.Excluded = true, "NoLeadingPackageOrImportKey(F83)"
				return
			}
		}
	}
	dir := scratch()
	defer os.RemoveAll(dir)
	// write the package: independent CUE rendering, one or two files
	body := func(fs []*dgen.Field) string {
		var sb strings.Builder
		for _, f := range fs {
			fmt.Fprintf(&sb, "%s: %s\n", dgen.CUEString(f.K), f.V.CUE())
		}
		return sb.String()
	}
	pkg := ""
	if c.Package {
		pkg = "package p\n\n"
	}
	fields := c.Tree.O
	extra := ""
	switch c.Broken {
	case "nonconcrete":
		extra = "\"notconcrete\": int\n"
	case "error":
		extra = "\"conflict\": 1\n\"conflict\": 2\n"
	case "tomlnull":
		extra = "\"nothing\": null\n"
	}
	var files []string
	if c.Split && len(fields) > 1 {
		h := len(fields) / 2
		os.WriteFile(filepath.Join(dir, "a.cue"), []byte(pkg+body(fields[:h])), 0o644)
		os.WriteFile(filepath.Join(dir, "b.cue"), []byte(pkg+body(fields[h:])+extra), 0o644)
		files = []string{"a.cue", "b.cue"}
	} else {
		os.WriteFile(filepath.Join(dir, "a.cue"), []byte(pkg+body(fields)+extra), 0o644)
		files = []string{"a.cue"}
	}
	args := files
	if c.Package {
		args = []string{"."}
		os.MkdirAll(filepath.Join(dir, "cue.mod"), 0o755)
		os.WriteFile(filepath.Join(dir, "cue.mod", "module.cue"), []byte("module: \"ex.com/m\"\nlanguage: version: \"v0.9.0\"\n"), 0o644)
	}
	want := c.Tree
	exprArgs := []string{}
	if c.Expr != "" {
		sub := lookup(c.Tree, c.Expr)
		if sub == nil {
			res.Skip = true
			return
		}
		want = sub
		exprArgs = []string{"-e", c.Expr}
		res.Classes = append(res.Classes, "expr")
	}
	describe := func() string {
		b, _ := os.ReadFile(filepath.Join(dir, "a.cue"))
		return fmt.Sprintf("flags: enc=%s viaFile=%v escape=%v expr=%q package=%v split=%v\na.cue:\n%s", c.Enc, c.ViaFile, c.Escape, c.Expr, c.Package, c.Split, b)
	}
	// 1. baseline JSON
	baseArgs := append(append([]string{"export"}, args...), append(exprArgs, "--out", "json")...)
	base, berr, code := run(dir, baseArgs...)
	if c.Broken == "nonconcrete" || c.Broken == "error" {
		res.Classes = append(res.Classes, "broken:"+c.Broken)
		if c.Expr != "" {
			res.Skip = true // the broken field may lie outside the exported sub-value
			return
		}
		if code == 0 {
			res.Fail = fmt.Sprintf("cue export exits 0 for a package that is %s\n%s", c.Broken, describe())
			return
		}
		out, _, code2 := run(dir, append(append([]string{"export"}, args...), "--out", c.Enc)...)
		if code2 == 0 {
			res.Fail = fmt.Sprintf("cue export --out %s exits 0 for a package that is %s (stdout %q)\n%s", c.Enc, c.Broken, out, describe())
		}
		res.NonTrivial = true
		return
	}
	if code != 0 {
		res.Fail = fmt.Sprintf("cue export --out json fails (exit %d): %s\n%s", code, berr, describe())
		return
	}
	got, err := dgen.ParseJSON([]byte(base))
	if err != nil {
		res.Fail = fmt.Sprintf("cue export --out json wrote invalid JSON: %v\n%s\n%s", err, base, describe())
		return
	}
	wantJ := want
	if c.Broken == "tomlnull" && c.Expr == "" {
		w2 := *want
		w2.O = append(append([]*dgen.Field{}, want.O...), &dgen.Field{K: "nothing", V: &dgen.Node{K: "null"}})
		wantJ = &w2
	}
	if d := dgen.Diff(wantJ, got, false, !c.Split); d != "" {
		res.Fail = fmt.Sprintf("cue export --out json differs from the ground truth: %s\n%s\n%s", d, base, describe())
		return
	}
	// 2. export to the target encoding
	ext := map[string]string{"json": "json", "yaml": "yaml", "toml": "toml", "cue": "cue"}[c.Enc]
	outFile := "out." + ext
	if c.Enc == "cue" {
		outFile = "outdir/out.cue"
		os.MkdirAll(filepath.Join(dir, "outdir"), 0o755)
	}
	expArgs := append(append([]string{"export"}, args...), exprArgs...)
	if c.Escape {
		expArgs = append(expArgs, "--escape")
	}
	var text string
	if c.ViaFile {
		expArgs = append(expArgs, "-o", outFile)
		if c.Overwrite {
			// an earlier export of a larger value to the same path: the same package with one more big field
			big := filepath.Join(dir, "big.cue")
			os.WriteFile(big, []byte(pkg+"\"zzzz_earlier_export\": [\""+strings.Repeat("x", 300)+"\", {\"p\": 1, \"q\": [1, 2, 3]}]\n"), 0o644)
			firstArgs := append([]string{}, expArgs...)
			if !c.Package {
				firstArgs = append(append([]string{"export"}, append(append([]string{}, args...), "big.cue")...), expArgs[1+len(args):]...)
			}
			if c.Expr == "" {
				if _, _, fc := run(dir, firstArgs...); fc != 0 {
					// could not produce the earlier export (for example TOML and a mixed list): fall back to filler
					os.WriteFile(filepath.Join(dir, outFile), []byte(strings.Repeat("# filler line of an older file\n", 200)), 0o644)
				}
			} else {
				os.WriteFile(filepath.Join(dir, outFile), []byte(strings.Repeat("# filler line of an older file\n", 200)), 0o644)
			}
			os.Remove(big)
			expArgs = append(expArgs, "--force")
			res.Classes = append(res.Classes, "overwrite")
		}
		_, eerr, ecode := run(dir, expArgs...)
		if ecode != 0 {
			if c.Broken == "tomlnull" && c.Enc == "toml" {
				res.Classes = append(res.Classes, "toml-null-rejected")
				res.NonTrivial = true
				return
			}
			res.Fail = fmt.Sprintf("cue %v fails (exit %d): %s\n%s", expArgs, ecode, eerr, describe())
			return
		}
		b, _ := os.ReadFile(filepath.Join(dir, outFile))
		text = string(b)
	} else {
		expArgs = append(expArgs, "--out", c.Enc+c.Qualifier)
		if c.Qualifier != "" {
			res.Classes = append(res.Classes, "qualifier")
		}
		o, eerr, ecode := run(dir, expArgs...)
		if ecode != 0 {
			if c.Broken == "tomlnull" && c.Enc == "toml" {
				res.Classes = append(res.Classes, "toml-null-rejected")
				res.NonTrivial = true
				return
			}
			res.Fail = fmt.Sprintf("cue %v fails (exit %d): %s\n%s", expArgs, ecode, eerr, describe())
			return
		}
		text = o
		os.WriteFile(filepath.Join(dir, outFile), []byte(text), 0o644)
	}
	// 3. an independent reader must see the same data
	var seen *dgen.Node
	ordered := !c.Split
	switch c.Enc {
	case "json":
		seen, err = dgen.ParseJSON([]byte(text))
	case "yaml":
		var n yaml.Node
		if err = yaml.Unmarshal([]byte(text), &n); err == nil {
			seen, err = fromYAML(&n)
		}
	case "toml":
		var m map[string]any
		if err = toml.Unmarshal([]byte(text), &m); err == nil {
			seen = fromAny(m)
		}
		ordered = false
	case "cue":
		seen = nil // checked through the import step below
	}
	if err != nil {
		res.Fail = fmt.Sprintf("the exported %s is not readable by an independent %s reader: %v\n%s\n%s", c.Enc, c.Enc, err, text, describe())
		return
	}
	wantT := wantJ
	if c.Enc == "toml" && c.Broken == "tomlnull" && c.Expr == "" {
		// property: an error rather than a silent change where the format cannot represent the value
		res.Fail = fmt.Sprintf("cue export --out toml succeeds for a value containing null (TOML cannot represent it; the field is silently dropped)\n%s\n%s", text, describe())
		return
	}
	if seen != nil {
		kinds := c.Enc == "yaml" || c.Enc == "toml"
		if d := dgen.Diff(wantT, seen, kinds, ordered); d != "" {
			res.Fail = fmt.Sprintf("the exported %s denotes other data: %s\n%s\n%s", c.Enc, d, text, describe())
			return
		}
	}
	// 4. import back and export as JSON: must reproduce the baseline
	impDir := filepath.Join(dir, "imp")
	os.MkdirAll(impDir, 0o755)
	src := filepath.Join(impDir, "data."+ext)
	os.WriteFile(src, []byte(text), 0o644)
	var back string
	if c.Enc == "cue" {
		var e2 string
		var c2 int
		back, e2, c2 = run(impDir, "export", "data.cue", "--out", "json")
		if c2 != 0 {
			res.Fail = fmt.Sprintf("the exported CUE does not export again: %s\n%s\n%s", e2, text, describe())
			return
		}
	} else {
		if _, e2, c2 := run(impDir, "import", "-f", "data."+ext); c2 != 0 {
			res.Fail = fmt.Sprintf("cue import of the exported %s fails: %s\n%s\n%s", c.Enc, e2, text, describe())
			return
		}
		var e3 string
		var c3 int
		back, e3, c3 = run(impDir, "export", "data.cue", "--out", "json")
		if c3 != 0 {
			res.Fail = fmt.Sprintf("cue export of the imported %s fails: %s\n%s\n%s", c.Enc, e3, text, describe())
			return
		}
	}
	bt, err := dgen.ParseJSON([]byte(back))
	if err != nil {
		res.Fail = fmt.Sprintf("JSON after import is invalid: %v\n%s", err, back)
		return
	}
	if d := dgen.Diff(got, bt, false, ordered && c.Enc != "toml"); d != "" {
		res.Fail = fmt.Sprintf("export %s -> import -> export json does not reproduce the original JSON: %s\noriginal: %s\nafter: %s\n%s\n%s", c.Enc, d, base, back, text, describe())
		return
	}
	nt := c.ViaFile || c.Escape || c.Expr != "" || c.Package || c.Split
	c.Tree.Walk(func(x *dgen.Node, isKey bool) {
		if x.K == "string" {
			for _, r := range x.S {
				if r >= 0x80 || (isKey && !(r >= 'a' && r <= 'z')) {
					nt = true
				}
			}
		}
		if x.K == "list" {
			for _, e := range x.L {
				if e.K == "object" {
					nt = true
				}
			}
		}
	})
	res.NonTrivial = nt
	return
}

func gen(t *rapid.T) Case {
	enc := rapid.SampledFrom([]string{"json", "yaml", "toml", "cue"}).Draw(t, "enc")
	o := dgen.Opts{Depth: 3, Strings: [][]string{dgen.YAMLHostile, dgen.CUEHostile}, NFC: true, TOMLSafe: true, NoNull: enc == "toml"}
	tree := dgen.Gen(t, o)
	for tree.K != "object" || len(tree.O) == 0 {
		tree = &dgen.Node{K: "object", O: []*dgen.Field{{K: rapid.SampledFrom([]string{"a", "k", "x y", "é"}).Draw(t, "wrapkey"), V: tree}}}
	}
	if enc == "toml" && rapid.IntRange(0, 2).Draw(t, "tomlshape") == 0 {
		// TOML's own structures: a table whose quoted key contains a dot, holding an array of tables
		// (two or more, with nested tables/arrays of tables), next to dotted and bare keys
		obj := func(label string) *dgen.Node {
			n := &dgen.Node{K: "object"}
			for i := 0; i < rapid.IntRange(1, 2).Draw(t, label+"n"); i++ {
				k := rapid.SampledFrom([]string{"name", "a.b", "x y", "port", "é"}).Draw(t, label+"k")
				if lookup(n, k) != nil {
					continue
				}
				var v *dgen.Node
				switch rapid.IntRange(0, 3).Draw(t, label+"v") {
				case 0:
					v = &dgen.Node{K: "int", N: fmt.Sprint(rapid.IntRange(-3, 9000).Draw(t, label+"i"))}
				case 1:
					v = &dgen.Node{K: "string", S: rapid.SampledFrom([]string{"", "a", "a.b", "x\ny"}).Draw(t, label+"s")}
				case 2:
					v = &dgen.Node{K: "object", O: []*dgen.Field{{K: "in.ner", V: &dgen.Node{K: "bool", B: true}}}}
				default:
					v = &dgen.Node{K: "list", L: []*dgen.Node{{K: "object", O: []*dgen.Field{{K: "t", V: &dgen.Node{K: "int", N: "1"}}}}, {K: "object", O: []*dgen.Field{{K: "t", V: &dgen.Node{K: "int", N: "2"}}}}}}
				}
				n.O = append(n.O, &dgen.Field{K: k, V: v})
			}
			return n
		}
		arr := &dgen.Node{K: "list"}
		for i := 0; i < rapid.IntRange(1, 3).Draw(t, "aot"); i++ {
			arr.L = append(arr.L, obj(fmt.Sprintf("aot%d", i)))
		}
		outer := rapid.SampledFrom([]string{"servers", "se.rvers", "s"}).Draw(t, "outerkey")
		inner := rapid.SampledFrom([]string{"example.com", "plain", "a.b.c", "with space"}).Draw(t, "innerkey")
		if lookup(tree, outer) == nil {
			tree.O = append(tree.O, &dgen.Field{K: outer, V: &dgen.Node{K: "object", O: []*dgen.Field{{K: inner, V: arr}}}})
		}
	}
	c := Case{Tree: tree, Enc: enc,
		ViaFile: rapid.IntRange(0, 2).Draw(t, "viafile") == 0,
		Escape:  rapid.IntRange(0, 5).Draw(t, "escape") == 0,
		Package: rapid.IntRange(0, 3).Draw(t, "package") == 0,
		Split:   rapid.IntRange(0, 3).Draw(t, "split") == 0,
	}
	if rapid.IntRange(0, 4).Draw(t, "expr") == 0 {
		// -e takes an expression: use a dedicated field with an identifier label that holds a sub-value
		sub := tree.O[rapid.IntRange(0, len(tree.O)-1).Draw(t, "exprfield")].V
		if enc != "toml" || sub.K == "object" {
			if lookup(tree, "sel") == nil {
				tree.O = append(tree.O, &dgen.Field{K: "sel", V: sub})
				c.Expr = "sel"
			}
		}
	}
	if enc == "yaml" && !c.ViaFile && rapid.Bool().Draw(t, "qual") {
		c.Qualifier = rapid.SampledFrom([]string{"+indentSequences=false", "+indentSequences=false", "+indentSequences", "+indentSequences=true"}).Draw(t, "qualifier")
		if c.Expr == "" && lookup(tree, "sel") == nil && rapid.Bool().Draw(t, "rootlist") {
			// layout options matter most for a list at the document root: export one through -e
			var lists []*dgen.Node
			for _, f := range tree.O {
				if f.V.K == "list" {
					lists = append(lists, f.V)
				}
			}
			if len(lists) == 0 {
				lists = append(lists, &dgen.Node{K: "list", L: []*dgen.Node{{K: "string", S: "h1"}, {K: "object", O: []*dgen.Field{{K: "k", V: &dgen.Node{K: "list", L: []*dgen.Node{{K: "int", N: "1"}}}}}}}})
			}
			tree.O = append(tree.O, &dgen.Field{K: "sel", V: lists[rapid.IntRange(0, len(lists)-1).Draw(t, "whichlist")]})
			c.Expr = "sel"
		}
	}
	if c.ViaFile && rapid.Bool().Draw(t, "overwrite") {
		c.Overwrite = true
	}
	switch rapid.IntRange(0, 11).Draw(t, "broken") {
	case 0:
		c.Broken = "nonconcrete"
	case 1:
		c.Broken = "error"
	case 2:
		if enc == "toml" {
			c.Broken = "tomlnull" // must be an error (F12, fixed: null was silently dropped)
		}
	}
	return c
}

func TestCLI(t *testing.T) {
	evid.Main(t, evid.Check[Case]{Name: "cli", Gen: gen, Run: runCase})
}
