// Package c20: cue trim removes only what is implied: the evaluated configuration is unchanged.
package c20

import (
	"bytes"
	"fmt"
	"sort"
	"strings"
	"testing"

	"cuelang.org/go/cue"
	"cuelang.org/go/cue/ast"
	"cuelang.org/go/cue/build"
	"cuelang.org/go/cue/cuecontext"
	"cuelang.org/go/cue/format"
	"cuelang.org/go/cue/parser"
	"cuelang.org/go/tools/trim"
	"cuelang.org/go/verifh/corpus"
	"cuelang.org/go/verifh/dgen"
	"cuelang.org/go/verifh/evid"
	"pgregory.net/rapid"
)

type Case struct {
	Files []string // files of one package
	Kind  string
}

func buildFiles(srcs []string) ([]*ast.File, cue.Value, error) {
	ctx := cuecontext.New()
	var files []*ast.File
	inst := build.NewContext().NewInstance("/p", nil)
	for i, s := range srcs {
		f, err := parser.ParseFile(fmt.Sprintf("/p/f%d.cue", i), s, parser.ParseComments)
		if err != nil {
			return nil, cue.Value{}, err
		}
		files = append(files, f)
		if err := inst.AddSyntax(f); err != nil {
			return nil, cue.Value{}, err
		}
	}
	return files, ctx.BuildInstance(inst), nil
}

// final renders the fully evaluated result with defaults resolved: JSON when
// it is concrete, else the error status and the canonical text of Syntax(Final).
func final(v cue.Value) string {
	j, err := v.MarshalJSON()
	if err == nil {
		return "DATA " + string(j)
	}
	// not concrete or erroneous: compare error status per top-level field
	var sb strings.Builder
	sb.WriteString("NONDATA")
	it, ferr := v.Fields(cue.Definitions(false), cue.Hidden(false), cue.Optional(false))
	if ferr != nil {
		return "ERR"
	}
	for it.Next() {
		fj, e := it.Value().MarshalJSON()
		if e != nil {
			fmt.Fprintf(&sb, "\u241e%s=<err>", it.Selector())
		} else {
			fmt.Fprintf(&sb, "\u241e%s=%s", it.Selector(), fj)
		}
	}
	return sb.String()
}

// sameFinal compares two renderings; JSON data is compared irrespective of field order.
func sameFinal(a, b string) bool {
	if a == b {
		return true
	}
	if strings.HasPrefix(a, "DATA ") && strings.HasPrefix(b, "DATA ") {
		x, e1 := dgen.ParseJSON([]byte(a[5:]))
		y, e2 := dgen.ParseJSON([]byte(b[5:]))
		return e1 == nil && e2 == nil && dgen.Diff(x, y, true, false) == "" && dgen.Diff(y, x, true, false) == ""
	}
	if strings.HasPrefix(a, "NONDATA") && strings.HasPrefix(b, "NONDATA") {
		fa, fb := strings.Split(a, "\u241e"), strings.Split(b, "\u241e")
		if len(fa) != len(fb) {
			return false
		}
		sort.Strings(fa)
		sort.Strings(fb)
		for i := range fa {
			ka, va, _ := strings.Cut(fa[i], "=")
			kb, vb, _ := strings.Cut(fb[i], "=")
			if ka != kb {
				return false
			}
			if va == vb {
				continue
			}
			x, e1 := dgen.ParseJSON([]byte(va))
			y, e2 := dgen.ParseJSON([]byte(vb))
			if e1 != nil || e2 != nil || dgen.Diff(x, y, true, false) != "" || dgen.Diff(y, x, true, false) != "" {
				return false
			}
		}
		return true
	}
	return false
}

func withPkg(files []string) []string {
	var out []string
	for _, f := range files {
		if strings.Contains(f, "package ") {
			out = append(out, f)
		} else {
			out = append(out, "package p\n"+f)
		}
	}
	return out
}

func run(c Case) (res evid.Result) {
	defer func() {
		if r := recover(); r != nil {
			res.Fail = fmt.Sprintf("panic: %v\n%s", r, strings.Join(c.Files, "\n---\n"))
		}
	}()
	res.Classes = []string{c.Kind}
	srcs := withPkg(c.Files)
	files, v, err := buildFiles(srcs)
	if err != nil {
		res.Skip = true
		return
	}
	before := final(v)
	if err := trim.Files(files, v, &trim.Config{}); err != nil {
		// trim may refuse (returns an error) - that is not a silent change
		res.Classes = append(res.Classes, "trim-error")
		return
	}
	var outs []string
	for _, f := range files {
		b, err := format.Node(f)
		if err != nil {
			res.Fail = fmt.Sprintf("trimmed file does not format: %v\n%s", err, strings.Join(c.Files, "\n---\n"))
			return
		}
		outs = append(outs, string(b))
	}
	files2, w, err := buildFiles(outs)
	if err != nil {
		res.Fail = fmt.Sprintf("trimmed package does not parse/build: %v\nsrc:\n%s\nout:\n%s", err, strings.Join(c.Files, "\n---\n"), strings.Join(outs, "\n---\n"))
		return
	}
	after := final(w)
	if !sameFinal(before, after) {
		res.Fail = fmt.Sprintf("trim changed the evaluated configuration\nsrc:\n%s\nout:\n%s\nbefore: %s\nafter:  %s", strings.Join(c.Files, "\n---\n"), strings.Join(outs, "\n---\n"), before, after)
		return
	}
	// trimming again removes nothing more
	if err := trim.Files(files2, w, &trim.Config{}); err != nil {
		res.Fail = fmt.Sprintf("second trim fails: %v\nout:\n%s", err, strings.Join(outs, "\n---\n"))
		return
	}
	removed := false
	for i, f := range files2 {
		b, _ := format.Node(f)
		if string(b) != outs[i] {
			res.Fail = fmt.Sprintf("trim is not idempotent\nsrc:\n%s\nfirst:\n%s\nsecond:\n%s", strings.Join(c.Files, "\n---\n"), outs[i], b)
			return
		}
		orig, _ := format.Source([]byte(srcs[i]))
		if !bytes.Equal(orig, []byte(outs[i])) {
			removed = true
		}
	}
	if removed {
		res.Classes = append(res.Classes, "removed-something")
	} else {
		res.Classes = append(res.Classes, "nothing-removed")
	}
	all := strings.Join(c.Files, "\n")
	res.NonTrivial = removed && (strings.Contains(all, "*") || strings.Contains(all, "for "))
	return
}

type fld struct {
	name   string
	schema string
	vals   []string
}

var flds = []fld{
	{"name", "string", []string{`"web"`, `"db"`}},
	{"port", "*8080 | int", []string{"8080", "5432"}},
	{"kind", `"svc"`, []string{`"svc"`}},
	{"env", `*"prod" | "dev" | string`, []string{`"prod"`, `"dev"`}},
	{"n", ">=0 & <=10 | *5", []string{"5", "7"}},
	{"on", "*true | bool", []string{"true", "false"}},
	{"tags", `[...string] | *["x"]`, []string{`["x"]`, `["y", "z"]`}},
	{"lim", `{cpu: *1 | int, mem: *"1G" | string}`, []string{`{cpu: 1, mem: "1G"}`, `{cpu: 2}`, `{mem: "2G"}`}},
	{"level", `*"info" | *"warn" | string`, []string{`"info"`, `"warn"`, `"debug"`}},
	{"prio", `*1 | *2 | int`, []string{"1", "2", "3"}},
	{"mode", `"a" | "b"`, []string{`"a"`, `"b"`}},
}

func gen(t *rapid.T) Case {
	var schema, data strings.Builder
	style := rapid.IntRange(0, 6).Draw(t, "style")
	perm := rapid.Permutation(flds).Draw(t, "fperm")
	fs := perm[:rapid.IntRange(1, len(flds)).Draw(t, "nf")]
	var sch []string
	for _, f := range fs {
		opt := ""
		switch rapid.IntRange(0, 9).Draw(t, "opt") {
		case 0, 1:
			opt = "?"
		case 2:
			opt = "!"
		}
		sch = append(sch, fmt.Sprintf("%s%s: %s", f.name, opt, f.schema))
	}
	nested := rapid.Bool().Draw(t, "nested")
	if nested {
		sch = append(sch, `meta: {owner: *"ops" | string, tier: int | *1}`)
	}
	body := strings.Join(sch, ", ")
	insts := []string{"web", "db", "cache"}[:rapid.IntRange(1, 3).Draw(t, "ninst")]
	switch style {
	case 0:
		fmt.Fprintf(&schema, "#S: {%s}\nsvc: [string]: #S\n", body)
	case 1:
		fmt.Fprintf(&schema, "svc: [string]: {%s}\n", body)
	case 2:
		fmt.Fprintf(&schema, "#S: {%s}\nsvc: [N=string]: #S & {name: N}\n", body)
	case 3:
		fmt.Fprintf(&schema, "_base: {%s}\nfor k in [%s] { svc: (k): _base }\n", body, `"`+strings.Join(insts, `", "`)+`"`)
	case 4: // comprehension over a source struct
		fmt.Fprintf(&schema, "_src: {%s}\nfor k, v in _src { svc: (k): {%s} & v }\n", func() string {
			var s []string
			for _, i := range insts {
				s = append(s, i+": {}")
			}
			return strings.Join(s, ", ")
		}(), body)
	case 6: // a comprehension that reads the struct it writes; the base is declared before or after it
		base := fmt.Sprintf("base: {%s}\n", body)
		comp := "for name, _ in svc { svc: (name): base }\n"
		if rapid.Bool().Draw(t, "basefirst") {
			fmt.Fprintf(&schema, "%s%s", base, comp)
		} else {
			fmt.Fprintf(&schema, "%s%s", comp, base)
		}
	case 5: // embedded disjunction schema
		fmt.Fprintf(&schema, "#A: {%s}\n#B: {kind2: *\"b\" | string}\nsvc: [string]: {#A, #B}\n", body)
	}
	for _, inst := range insts {
		var ds []string
		for _, f := range fs {
			if rapid.IntRange(0, 2).Draw(t, "has") == 0 {
				continue
			}
			v := rapid.SampledFrom(f.vals).Draw(t, "v")
			if f.name == "name" && rapid.IntRange(0, 4).Draw(t, "realname") > 0 {
				v = `"` + inst + `"`
			}
			ds = append(ds, f.name+": "+v)
		}
		if nested && rapid.Bool().Draw(t, "hm") {
			ds = append(ds, fmt.Sprintf("meta: {owner: %s, tier: %s}", rapid.SampledFrom([]string{`"ops"`, `"dev"`}).Draw(t, "o"), rapid.SampledFrom([]string{"1", "2"}).Draw(t, "ti")))
		}
		if style == 5 && rapid.Bool().Draw(t, "k2") {
			ds = append(ds, `kind2: `+rapid.SampledFrom([]string{`"b"`, `"c"`}).Draw(t, "k2v"))
		}
		if rapid.Bool().Draw(t, "split") && len(ds) > 1 {
			fmt.Fprintf(&data, "svc: %s: {%s}\nsvc: %s: %s\n", inst, ds[0], inst, strings.Join(ds[1:], "\nsvc: "+inst+": "))
		} else {
			fmt.Fprintf(&data, "svc: %s: {%s}\n", inst, strings.Join(ds, ", "))
		}
	}
	c := Case{Kind: fmt.Sprintf("style%d", style)}
	switch rapid.IntRange(0, 2).Draw(t, "files") {
	case 0:
		if rapid.Bool().Draw(t, "datafirst") {
			c.Files = []string{data.String() + schema.String()}
		} else {
			c.Files = []string{schema.String() + data.String()}
		}
	case 1:
		c.Files = []string{schema.String(), data.String()}
	default:
		c.Files = []string{data.String(), schema.String()}
	}
	return c
}

func TestTrim(t *testing.T) {
	evid.Main(t, evid.Check[Case]{Name: "trim", Gen: gen, Run: run, Journal: true})
}

// TestTrimCorpus: the repository's trim testdata inputs as seeds, with mutated values.
func TestTrimCorpus(t *testing.T) {
	evid.Main(t, evid.Check[Case]{Name: "trim-corpus", Journal: true, Gen: func(t *rapid.T) Case {
		var seeds []corpus.File
		for _, f := range corpus.Files(4000) {
			if strings.Contains(f.Name, "tools/trim/testdata") && strings.HasSuffix(f.Name, "in.cue") {
				seeds = append(seeds, f)
			}
		}
		f := seeds[rapid.IntRange(0, len(seeds)-1).Draw(t, "seed")]
		src := string(f.Data)
		// value mutation: swap one literal for another of the same class
		if rapid.Bool().Draw(t, "mutate") {
			lits := []string{"1", "2", "3", "5", "7", "8080", `"a"`, `"b"`, "true", "false"}
			from := rapid.SampledFrom(lits).Draw(t, "from")
			to := rapid.SampledFrom(lits).Draw(t, "to")
			if (from[0] == '"') == (to[0] == '"') && strings.Contains(src, from) {
				idx := strings.Index(src, from)
				if n := strings.Count(src, from); n > 1 && rapid.Bool().Draw(t, "last") {
					idx = strings.LastIndex(src, from)
				}
				src = src[:idx] + to + src[idx+len(from):]
			}
		}
		return Case{Files: []string{src}, Kind: "testdata"}
	}, Run: func(c Case) evid.Result {
		r := run(c)
		if r.Fail != "" && excluded(c) {
			return evid.Result{Skip: true, Excluded: "TrimTestdataKnownDiffs", Classes: []string{"testdata-known"}}
		}
		return r
	}})
}

func excluded(c Case) bool { return false }
