package canon

import (
	"fmt"

	"github.com/cockroachdb/apd/v3"
	"sort"
	"strings"

	"cuelang.org/go/cue"
	"cuelang.org/go/internal/core/adt"
	"cuelang.org/go/internal/value"
)

func uniq(s []string) []string {
	var r []string
	for i, x := range s {
		if i == 0 || x != s[i-1] {
			r = append(r, x)
		}
	}
	return r
}

func Of(v cue.Value, depth int) string {
	octx := value.OpContext(v)
	_, vx := value.ToInternal(v)
	vx.Finalize(octx)
	return canonV(octx, vx, 0)
}

func canonV(c *adt.OpContext, v *adt.Vertex, depth int) string {
	if depth > 12 {
		return "<deep>"
	}
	v = v.DerefValue()
	arcs := func() string {
		var fs []string
		for _, a := range v.Arcs {
			if a.Label.IsLet() { continue }
			m := ""
			switch a.ArcType {
			case adt.ArcOptional: m = "?"
			case adt.ArcRequired: m = "!"
			case adt.ArcMember:
			default: continue
			}
			fs = append(fs, fmt.Sprintf("%s%s: %s", a.Label.SelectorString(c), m, canonV(c, a, depth+1)))
		}
		sort.SliceStable(fs, func(i, j int) bool {
			di := fs[i][0] >= '0' && fs[i][0] <= '9'
			dj := fs[j][0] >= '0' && fs[j][0] <= '9'
			if di && dj { return false }
			if di != dj { return di }
			return fs[i] < fs[j]
		})
		if v.PatternConstraints != nil {
			var ps []string
			for _, p := range v.PatternConstraints.Pairs {
				// The evaluator only evaluates a pattern's constraint on demand: whether it
				// has been evaluated yet is not a property of the value.
				if p.Constraint.BaseValue == nil {
					p.Constraint.Finalize(c)
				}
				ps = append(ps, fmt.Sprintf("[%s]: %s", c.Str(p.Pattern), canonV(c, p.Constraint, depth+1)))
			}
			sort.Strings(ps)
			fs = append(fs, uniq(ps)...)
		}
		return strings.Join(fs, ", ")
	}
	switch b := v.BaseValue.(type) {
	case *adt.Bottom:
		if b.IsIncomplete() {
			return "INCOMPLETE"
		}
		if b.ChildError && len(v.Arcs) > 0 {
			return "CHILDERR{" + arcs() + "}"
		}
		return "ERR"
	case *adt.Disjunction:
		var ds, defs []string
		for i, x := range b.Values {
			s := canonVal(c, x, depth+1)
			ds = append(ds, s)
			if i < b.NumDefaults {
				defs = append(defs, s)
			}
		}
		sort.Strings(ds)
		sort.Strings(defs)
		return "OR(" + strings.Join(uniq(ds), " | ") + ")DEF(" + strings.Join(uniq(defs), " | ") + ")"
	case *adt.StructMarker:
		fl := ""
		if v.ClosedRecursive { fl += "CR " }
		if v.ClosedNonRecursive { fl += "CN " }
		if v.HasEllipsis { fl += "E " }
		return fl + "{" + arcs() + "}"
	case *adt.ListMarker:
		o := ""
		if b.IsOpen { o = ", ..." }
		return "[" + arcs() + o + "]"
	case adt.Value:
		return canonVal(c, b, depth)
	case nil:
		return "NIL"
	}
	return fmt.Sprintf("?%T", v.BaseValue)
}

func numStr(n *adt.Num) string {
	var d apd.Decimal
	d.Reduce(&n.X)
	return d.String()
}

func canonVal(c *adt.OpContext, x adt.Value, depth int) string {
	switch y := x.(type) {
	case *adt.Vertex:
		return canonV(c, y, depth)
	case *adt.Conjunction:
		var ps []string
		for _, p := range y.Values {
			ps = append(ps, canonVal(c, p, depth+1))
		}
		sort.Strings(ps)
		return "AND(" + strings.Join(uniq(ps), " & ") + ")"
	case *adt.Num:
		return fmt.Sprintf("%v:%s", y.K, numStr(y))
	case *adt.BoundValue:
		// a bound is compared by operator and numeric value of its operand (<=255.0 is <=255)
		if n, ok := y.Value.(*adt.Num); ok {
			return fmt.Sprintf("%v:%v%s", x.Kind(), y.Op, numStr(n))
		}
	}
	return fmt.Sprintf("%v:%s", x.Kind(), c.Str(x))
}

