// Package c01: the evaluation result is independent of declaration and conjunct order.
package c01

import (
	"fmt"
	"os"
	"strconv"
	"strings"
	"testing"

	"cuelang.org/go/cue"
	"cuelang.org/go/cue/build"
	"cuelang.org/go/cue/cuecontext"
	"cuelang.org/go/verifh/canon"
	"cuelang.org/go/verifh/evid"
	"cuelang.org/go/verifh/pgen"
	"pgregory.net/rapid"
)

type Case struct {
	A     string   // program P (one file body)
	B     []string // rearranged program P' as 1-3 files of one package, in build order
	Moves string   // what the rearrangement did (informational)
}

func tier() int {
	if s := os.Getenv("VERIF_TIER_MAX"); s != "" {
		n, _ := strconv.Atoi(s)
		return n
	}
	return 1
}

// features: the registered set, or VERIF_FEATURES=<bitmask> for triage runs.
func features() int {
	if s := os.Getenv("VERIF_FEATURES"); s != "" {
		n, _ := strconv.Atoi(s)
		return n
	}
	return pgen.FRefTypes | pgen.FListComp | pgen.FConflict | pgen.FStructDisj | pgen.FSelectors | pgen.FDerived
}

func evalFiles(files []string) (cue.Value, error) {
	ctx := cuecontext.New()
	if len(files) == 1 {
		return ctx.CompileString(files[0]), nil
	}
	inst := build.NewContext().NewInstance("", nil)
	for i, f := range files {
		if err := inst.AddFile(fmt.Sprintf("f%d.cue", i), "package p\n"+f); err != nil {
			return cue.Value{}, err
		}
	}
	return ctx.BuildInstance(inst), nil
}

func run(c Case) (res evid.Result) {
	va, err := evalFiles([]string{c.A})
	if err != nil {
		res.Fail = fmt.Sprintf("cannot build P: %v\n%s", err, c.A)
		return
	}
	vb, err := evalFiles(c.B)
	if err != nil {
		res.Fail = fmt.Sprintf("cannot build P': %v\n%s", err, strings.Join(c.B, "\n---\n"))
		return
	}
	ca, cb := canon.Of(va, 0), canon.Of(vb, 0)
	ea, eb := strings.Contains(ca, "ERR"), strings.Contains(cb, "ERR")
	res.Classes = pgen.Features(c.A)
	if len(c.B) > 1 {
		res.Classes = append(res.Classes, "multi-file")
	}
	switch {
	case ea || eb:
		res.Classes = append(res.Classes, "fatal-error")
		// comparison rule (ii): a fatal error anywhere must be a fatal error in both
		if ea != eb {
			res.Fail = fmt.Sprintf("error status depends on order\nP:  %s\nP': %s\ncanon(P):  %s\ncanon(P'): %s", c.A, strings.Join(c.B, "\n---\n"), ca, cb)
		}
		return
	case strings.Contains(ca, "INCOMPLETE"):
		res.Classes = append(res.Classes, "incomplete")
	default:
		res.Classes = append(res.Classes, "complete")
	}
	if ca != cb {
		res.Fail = fmt.Sprintf("evaluation depends on order\nP:  %s\nP': %s\ncanon(P):  %s\ncanon(P'): %s", c.A, strings.Join(c.B, "\n---\n"), ca, cb)
		return
	}
	textB := strings.Join(c.B, "\n")
	res.NonTrivial = textB != c.A && (strings.Contains(c.A, " & ") || strings.Contains(c.A, " | ") || strings.Contains(c.A, "close(") || repeatedLabel(c.A))
	res.Key = c.A + "\x00" + textB
	return
}

func repeatedLabel(src string) bool {
	// cheap: the same "label: " occurs twice
	for _, l := range []string{"a: ", "b: ", "c: ", "d: ", "e: "} {
		if strings.Count(src, l) > 1 {
			return true
		}
	}
	return false
}

func gen(t *rapid.T) Case {
	g := &pgen.G{T: t, Tier: tier(), F: features()}
	w := pgen.GenStructW(t, 2)
	concrete := rapid.IntRange(0, 3).Draw(t, "concrete") > 0
	st := g.Program(w, concrete)
	p := pgen.PermStruct(t, st)
	c := Case{A: st.Body()}
	nf := 1
	if rapid.IntRange(0, 4).Draw(t, "multifile") == 0 {
		nf = rapid.IntRange(2, 3).Draw(t, "nfiles")
	}
	if nf == 1 {
		c.B = []string{p.Body()}
	} else {
		c.B = pgen.SplitTop(t, p, nf)
	}
	return c
}

func TestOrder(t *testing.T) {
	evid.Main(t, evid.Check[Case]{Name: "order", Gen: gen, Run: run, Journal: true})
}
