// Package c19: values are immutable: concurrent use gives sequential answers, no data races.
// The test binary is built with -race; GORACE=halt_on_error makes a race report kill the
// process, which the driver attributes to the journalled case.
package c19

import (
	"fmt"
	"os"
	"runtime"
	"strings"
	"sync"
	"testing"

	"cuelang.org/go/cue"
	"cuelang.org/go/cue/cuecontext"
	"cuelang.org/go/cue/format"
	"cuelang.org/go/encoding/yaml"
	"cuelang.org/go/verifh/canon"
	"cuelang.org/go/verifh/evid"
	"cuelang.org/go/verifh/pgen"
	"pgregory.net/rapid"
)

type Case struct {
	Src   string
	State string  // deep | validated | fresh : how far the shared value was evaluated before sharing
	Seqs  [][]int // per goroutine: indices into ops
	Skew  []int   // per goroutine: Gosched calls before starting
	Mode  string  // shared | contexts
}

type T struct {
	A any `json:"a"`
	B any `json:"b"`
}

var ops = []struct {
	name    string
	derives bool
	f       func(v cue.Value) string
}{
	{"validate", true, func(v cue.Value) string { return fmt.Sprint(v.Validate() == nil) }},
	{"validate-concrete", true, func(v cue.Value) string { return fmt.Sprint(v.Validate(cue.Concrete(true)) == nil) }},
	{"validate-all", true, func(v cue.Value) string { return fmt.Sprint(v.Validate(cue.All()) == nil) }},
	{"json", false, func(v cue.Value) string { b, err := v.MarshalJSON(); return fmt.Sprint(string(b), err == nil) }},
	{"yaml", false, func(v cue.Value) string { b, err := yaml.Encode(v); return fmt.Sprint(string(b), err == nil) }},
	{"syntax", true, func(v cue.Value) string { b, _ := format.Node(v.Syntax()); return string(b) }},
	{"syntax-final", true, func(v cue.Value) string { b, _ := format.Node(v.Syntax(cue.Final())); return string(b) }},
	{"syntax-all", true, func(v cue.Value) string { b, _ := format.Node(v.Syntax(cue.All(), cue.Docs(true))); return string(b) }},
	{"fields", false, func(v cue.Value) string {
		it, err := v.Fields(cue.All())
		if err != nil {
			return "err"
		}
		var s []string
		for it.Next() {
			s = append(s, it.Selector().String()+"="+fmt.Sprint(it.Value().IncompleteKind()))
		}
		return strings.Join(s, ",")
	}},
	{"walk", false, func(v cue.Value) string {
		n := 0
		v.Walk(func(x cue.Value) bool { n++; return true }, nil)
		return fmt.Sprint(n)
	}},
	{"lookup", false, func(v cue.Value) string {
		x := v.LookupPath(cue.ParsePath("a"))
		return fmt.Sprint(x.Exists(), x.IncompleteKind(), x.IsConcrete())
	}},
	{"lookup-deep", false, func(v cue.Value) string {
		x := v.LookupPath(cue.ParsePath("a.a"))
		l, _ := v.LookupPath(cue.ParsePath("b")).Len().Int64()
		return fmt.Sprint(x.Exists(), x.Kind(), l)
	}},
	{"default", true, func(v cue.Value) string { d, ok := v.LookupPath(cue.ParsePath("a")).Default(); return fmt.Sprint(d.Kind(), ok) }},
	{"eval", true, func(v cue.Value) string { return fmt.Sprint(v.Eval().IncompleteKind()) }},
	{"unify-self", true, func(v cue.Value) string { return fmt.Sprint(v.Unify(v).Validate() == nil) }},
	{"unify-sub", true, func(v cue.Value) string {
		return fmt.Sprint(v.LookupPath(cue.ParsePath("a")).Unify(v.LookupPath(cue.ParsePath("b"))).Err() == nil)
	}},
	{"fill", true, func(v cue.Value) string { return fmt.Sprint(v.FillPath(cue.ParsePath("zz"), 1).Validate() == nil) }},
	{"fill-existing", true, func(v cue.Value) string {
		return fmt.Sprint(v.FillPath(cue.ParsePath("a"), v.LookupPath(cue.ParsePath("a"))).Err() == nil)
	}},
	{"decode-any", true, func(v cue.Value) string { var x any; err := v.Decode(&x); return fmt.Sprint(x, err == nil) }},
	{"decode-struct", true, func(v cue.Value) string { var x T; err := v.Decode(&x); return fmt.Sprint(x, err == nil) }},
	{"kind", false, func(v cue.Value) string { return fmt.Sprint(v.Kind(), v.IncompleteKind(), v.IsConcrete()) }},
	{"allows", false, func(v cue.Value) string { return fmt.Sprint(v.Allows(cue.Str("zz")), v.Allows(cue.Str("a"))) }},
	{"subsume", false, func(v cue.Value) string { return fmt.Sprint(v.Subsume(v) == nil) }},
	{"equals", false, func(v cue.Value) string { return fmt.Sprint(v.Equals(v)) }},
	{"expr", false, func(v cue.Value) string { op, args := v.LookupPath(cue.ParsePath("a")).Expr(); return fmt.Sprint(op, len(args)) }},
	{"refpath", false, func(v cue.Value) string {
		_, p := v.LookupPath(cue.ParsePath("b")).ReferencePath()
		return p.String()
	}},
	{"path-pos-doc", false, func(v cue.Value) string {
		x := v.LookupPath(cue.ParsePath("a"))
		return fmt.Sprint(x.Path(), x.Pos().Line(), len(x.Doc()))
	}},
	{"scalars", false, func(v cue.Value) string {
		x := v.LookupPath(cue.ParsePath("a"))
		s, e1 := x.String()
		i, e2 := x.Int64()
		f, e3 := x.Float64()
		return fmt.Sprint(s, e1 == nil, i, e2 == nil, f, e3 == nil)
	}},
}

func deepWalk(v cue.Value) {
	var rec func(x cue.Value, d int)
	rec = func(x cue.Value, d int) {
		if d > 8 {
			return
		}
		x.Validate(cue.All())
		if it, err := x.Fields(cue.All()); err == nil {
			for it.Next() {
				rec(it.Value(), d+1)
			}
		}
		if it, err := x.List(); err == nil {
			for it.Next() {
				rec(it.Value(), d+1)
			}
		}
		if dv, ok := x.Default(); ok {
			rec(dv, d+1)
		}
		x.Syntax(cue.All())
		x.Syntax()
		x.Syntax(cue.Final())
		x.MarshalJSON()
	}
	rec(v, 0)
}

func prepare(src, state string) cue.Value {
	v := cuecontext.New().CompileString(src)
	switch state {
	case "validated":
		v.Validate()
	case "deep":
		deepWalk(v)
	}
	return v
}

func run(c Case) (res evid.Result) {
	res.Classes = []string{"state:" + c.State, "mode:" + c.Mode}
	// sequential baseline on a separately compiled copy in the same pre-evaluation state
	bv := prepare(c.Src, c.State)
	cb := canon.Of(bv, 0)
	if strings.Contains(cb, "ERR") {
		res.Skip = true // erroneous programs are outside the registered state (known finding F19)
		res.Classes = append(res.Classes, "fatal-error")
		return
	}
	base := make([]string, len(ops))
	for i, o := range ops {
		base[i] = o.f(bv)
	}
	var v cue.Value
	if c.Mode != "contexts" {
		v = prepare(c.Src, c.State)
	}
	before := ""
	if c.Mode != "contexts" {
		before = canon.Of(prepare(c.Src, c.State), 0)
	}
	var wg sync.WaitGroup
	var mu sync.Mutex
	var bad []string
	start := make(chan struct{})
	derivers := 0
	for i := range c.Seqs {
		d := false
		for _, k := range c.Seqs[i] {
			if ops[k%len(ops)].derives {
				d = true
			}
		}
		if d {
			derivers++
		}
		wg.Add(1)
		go func(seq []int, skew int) {
			defer wg.Done()
			x := v
			<-start
			for j := 0; j < skew; j++ {
				runtime.Gosched()
			}
			if c.Mode == "contexts" {
				// an independent context per goroutine
				x = prepare(c.Src, c.State)
			}
			for _, k := range seq {
				k %= len(ops)
				r := ops[k].f(x)
				if r != base[k] {
					mu.Lock()
					bad = append(bad, fmt.Sprintf("%s: got %q, alone it gives %q", ops[k].name, r, base[k]))
					mu.Unlock()
				}
			}
		}(c.Seqs[i], c.Skew[i%len(c.Skew)])
	}
	close(start)
	wg.Wait()
	if len(bad) > 0 {
		res.Fail = fmt.Sprintf("a call returned something else than it returns when run alone: %v\nprogram: %s", bad, c.Src)
		return
	}
	if c.Mode != "contexts" {
		if after := canon.Of(v, 0); after != before {
			res.Fail = fmt.Sprintf("the shared value changed\nbefore: %s\nafter:  %s\nprogram: %s", before, after, c.Src)
			return
		}
	}
	res.NonTrivial = derivers >= 2
	return
}

func state() string {
	if s := os.Getenv("VERIF_C19_STATE"); s != "" {
		return s
	}
	return "deep"
}

func gen(t *rapid.T) Case {
	g := &pgen.G{T: t, Tier: 2, F: pgen.FRefTypes | pgen.FListComp | pgen.FStructDisj | pgen.FSelectors | pgen.FDerived}
	w := pgen.GenStructW(t, 2)
	st := g.Program(w, rapid.Bool().Draw(t, "conc"))
	c := Case{Src: st.Body(), State: state(), Mode: rapid.SampledFrom([]string{"shared", "shared", "shared", "contexts"}).Draw(t, "mode")}
	ng := rapid.SampledFrom([]int{2, 3, 4, 8, 16}).Draw(t, "ng")
	for i := 0; i < ng; i++ {
		c.Seqs = append(c.Seqs, rapid.SliceOfN(rapid.IntRange(0, len(ops)-1), 1, 6).Draw(t, "seq"))
		c.Skew = append(c.Skew, rapid.IntRange(0, 3).Draw(t, "skew"))
	}
	return c
}

func TestConcurrent(t *testing.T) {
	evid.Main(t, evid.Check[Case]{Name: "concurrent", Gen: gen, Journal: true, Run: func(c Case) evid.Result {
		reps := 1
		if os.Getenv("VERIF_MODE") == "replay" {
			reps = 40 // a saved schedule-dependent case is given many chances to show the race again
		}
		var r evid.Result
		for i := 0; i < reps; i++ {
			if r = run(c); r.Fail != "" {
				return r
			}
		}
		return r
	}})
}
