// Package c19: values are immutable: concurrent use gives sequential answers, no data races.
// The test binary is built with -race; GORACE=halt_on_error makes a race report kill the
// process, which the driver attributes to the journalled case.
package c19

import (
	"fmt"
	"os"
	"reflect"
	"runtime"
	"strings"
	"sync"
	"sync/atomic"
	"testing"

	"cuelang.org/go/cue"
	"cuelang.org/go/cue/cuecontext"
	"cuelang.org/go/cue/format"
	"cuelang.org/go/encoding/yaml"
	"cuelang.org/go/internal/core/adt"
	"cuelang.org/go/internal/value"
	"cuelang.org/go/verifh/canon"
	"cuelang.org/go/verifh/evid"
	"cuelang.org/go/verifh/pgen"
	"pgregory.net/rapid"
)

type Case struct {
	Src   string
	State string  // deep | validated | fresh : how far the shared value was evaluated before sharing
	Seqs  [][]int // per goroutine: indices into ops
	Skew  []int   // per goroutine: Gosched calls before starting
	Mode  string  // shared | contexts | burst
	// burst: before its own sequence every goroutine runs Rounds rounds of the tagged operations
	// Burst, all goroutines released together by a spin barrier at the start of each round
	Burst  []int
	Rounds int
}

type T struct {
	A any `json:"a"`
	B any `json:"b"`
}

var ops = []struct {
	name    string
	derives bool
	f       func(v cue.Value) string
}{
	{"validate", true, func(v cue.Value) string { return fmt.Sprint(v.Validate() == nil) }},
	{"validate-concrete", true, func(v cue.Value) string { return fmt.Sprint(v.Validate(cue.Concrete(true)) == nil) }},
	{"validate-all", true, func(v cue.Value) string { return fmt.Sprint(v.Validate(cue.All()) == nil) }},
	{"json", false, func(v cue.Value) string { b, err := v.MarshalJSON(); return fmt.Sprint(string(b), err == nil) }},
	{"yaml", false, func(v cue.Value) string { b, err := yaml.Encode(v); return fmt.Sprint(string(b), err == nil) }},
	{"syntax", true, func(v cue.Value) string { b, _ := format.Node(v.Syntax()); return string(b) }},
	{"syntax-final", true, func(v cue.Value) string { b, _ := format.Node(v.Syntax(cue.Final())); return string(b) }},
	{"syntax-all", true, func(v cue.Value) string { b, _ := format.Node(v.Syntax(cue.All(), cue.Docs(true))); return string(b) }},
	{"fields", false, func(v cue.Value) string {
		it, err := v.Fields(cue.All())
		if err != nil {
			return "err"
		}
		var s []string
		for it.Next() {
			s = append(s, it.Selector().String()+"="+fmt.Sprint(it.Value().IncompleteKind()))
		}
		return strings.Join(s, ",")
	}},
	{"walk", false, func(v cue.Value) string {
		n := 0
		v.Walk(func(x cue.Value) bool { n++; return true }, nil)
		return fmt.Sprint(n)
	}},
	{"lookup", false, func(v cue.Value) string {
		x := v.LookupPath(cue.ParsePath("a"))
		return fmt.Sprint(x.Exists(), x.IncompleteKind(), x.IsConcrete())
	}},
	{"lookup-deep", false, func(v cue.Value) string {
		x := v.LookupPath(cue.ParsePath("a.a"))
		l, _ := v.LookupPath(cue.ParsePath("b")).Len().Int64()
		return fmt.Sprint(x.Exists(), x.Kind(), l)
	}},
	{"default", true, func(v cue.Value) string {
		d, ok := v.LookupPath(cue.ParsePath("a")).Default()
		return fmt.Sprint(d.Kind(), ok)
	}},
	{"eval", true, func(v cue.Value) string { return fmt.Sprint(v.Eval().IncompleteKind()) }},
	{"unify-self", true, func(v cue.Value) string { return fmt.Sprint(v.Unify(v).Validate() == nil) }},
	{"unify-sub", true, func(v cue.Value) string {
		return fmt.Sprint(v.LookupPath(cue.ParsePath("a")).Unify(v.LookupPath(cue.ParsePath("b"))).Err() == nil)
	}},
	{"fill", true, func(v cue.Value) string { return fmt.Sprint(v.FillPath(cue.ParsePath("zz"), 1).Validate() == nil) }},
	{"fill-existing", true, func(v cue.Value) string {
		return fmt.Sprint(v.FillPath(cue.ParsePath("a"), v.LookupPath(cue.ParsePath("a"))).Err() == nil)
	}},
	{"decode-any", true, func(v cue.Value) string { var x any; err := v.Decode(&x); return fmt.Sprint(x, err == nil) }},
	{"decode-struct", true, func(v cue.Value) string { var x T; err := v.Decode(&x); return fmt.Sprint(x, err == nil) }},
	{"kind", false, func(v cue.Value) string { return fmt.Sprint(v.Kind(), v.IncompleteKind(), v.IsConcrete()) }},
	{"allows", false, func(v cue.Value) string { return fmt.Sprint(v.Allows(cue.Str("zz")), v.Allows(cue.Str("a"))) }},
	{"subsume", false, func(v cue.Value) string { return fmt.Sprint(v.Subsume(v) == nil) }},
	{"equals", false, func(v cue.Value) string { return fmt.Sprint(v.Equals(v)) }},
	{"expr", false, func(v cue.Value) string {
		op, args := v.LookupPath(cue.ParsePath("a")).Expr()
		return fmt.Sprint(op, len(args))
	}},
	{"refpath", false, func(v cue.Value) string {
		_, p := v.LookupPath(cue.ParsePath("b")).ReferencePath()
		return p.String()
	}},
	{"path-pos-doc", false, func(v cue.Value) string {
		x := v.LookupPath(cue.ParsePath("a"))
		return fmt.Sprint(x.Path(), x.Pos().Line(), len(x.Doc()))
	}},
	{"scalars", false, func(v cue.Value) string {
		x := v.LookupPath(cue.ParsePath("a"))
		s, e1 := x.String()
		i, e2 := x.Int64()
		f, e3 := x.Float64()
		return fmt.Sprint(s, e1 == nil, i, e2 == nil, f, e3 == nil)
	}},
}

// tagged operations touch process-wide state (the label index, the struct-field cache of the
// decoder) on their first use with a new name. The tag is unique per (case, repetition, phase,
// round), so the sequential baseline never warms up what the concurrent phase is about to use,
// and all goroutines of the concurrent phase use the same new name at the same time.
var taggedOps = []struct {
	name string
	f    func(v cue.Value, tag string) string
}{
	{"fill-fresh-label", func(v cue.Value, tag string) string {
		p := cue.ParsePath("fresh_" + tag)
		x := v.FillPath(p, 1).LookupPath(p)
		n, err := x.Int64()
		return fmt.Sprint(x.Exists(), n, err == nil)
	}},
	{"lookup-fresh-label", func(v cue.Value, tag string) string {
		x := v.LookupPath(cue.MakePath(cue.Str("absent_" + tag)))
		y := v.LookupPath(cue.ParsePath("a"))
		return fmt.Sprint(x.Exists(), y.Exists())
	}},
	{"decode-folded-names", func(v cue.Value, tag string) string {
		// a struct type nobody has decoded into yet, whose field names match the CUE labels only
		// case-insensitively
		var fs []reflect.StructField
		for _, n := range []string{"A", "B", "C", "D", "E", "Z"} {
			fs = append(fs, reflect.StructField{Name: n, Type: reflect.TypeOf((*any)(nil)).Elem()})
		}
		fs = append(fs, reflect.StructField{Name: "X" + tag, Type: reflect.TypeOf(0), Tag: `json:"-"`})
		pv := reflect.New(reflect.StructOf(fs))
		err := v.Decode(pv.Interface())
		var out []string
		for i := 0; i < 6; i++ {
			out = append(out, fmt.Sprint(pv.Elem().Field(i).Interface()))
		}
		return fmt.Sprint(out, err == nil)
	}},
	{"compile-fresh-label", func(v cue.Value, tag string) string {
		w := v.Context().CompileString("new_" + tag + ": 1, other_" + tag + ": new_" + tag + " + 1")
		n, err := w.LookupPath(cue.ParsePath("other_" + tag)).Int64()
		return fmt.Sprint(n, err == nil, v.Unify(w).LookupPath(cue.ParsePath("new_"+tag)).Exists())
	}},
}

var tagCounter atomic.Int64

func deepWalk(v cue.Value) {
	var rec func(x cue.Value, d int)
	rec = func(x cue.Value, d int) {
		if d > 8 {
			return
		}
		x.Validate(cue.All())
		if it, err := x.Fields(cue.All()); err == nil {
			for it.Next() {
				rec(it.Value(), d+1)
			}
		}
		if it, err := x.List(); err == nil {
			for it.Next() {
				rec(it.Value(), d+1)
			}
		}
		if dv, ok := x.Default(); ok {
			rec(dv, d+1)
		}
		x.Syntax(cue.All())
		x.Syntax()
		x.Syntax(cue.Final())
		x.MarshalJSON()
	}
	rec(v, 0)
}

// walk evaluates every node (Validate, field and list iteration) but calls none of the
// value-deriving methods (Default, Syntax, MarshalJSON): their first use happens concurrently.
func walk(v cue.Value) {
	var rec func(x cue.Value, d int)
	rec = func(x cue.Value, d int) {
		if d > 8 {
			return
		}
		x.Validate(cue.All())
		if it, err := x.Fields(cue.All()); err == nil {
			for it.Next() {
				rec(it.Value(), d+1)
			}
		}
		if it, err := x.List(); err == nil {
			for it.Next() {
				rec(it.Value(), d+1)
			}
		}
	}
	rec(v, 0)
}

// fingerprint records, for every vertex reachable from v that is finalized, the parts of it that
// no read-only method may change: its conjuncts, its arcs and its base value.
func fingerprint(v cue.Value) map[*adt.Vertex]string {
	_, vx := value.ToInternal(v)
	fp := map[*adt.Vertex]string{}
	seen := map[*adt.Vertex]bool{}
	var rec func(x *adt.Vertex, d int)
	rec = func(x *adt.Vertex, d int) {
		if x == nil || seen[x] || d > 12 {
			return
		}
		seen[x] = true
		if x.Status() == 4 { // adt.finalized (unexported): fully evaluated
			var cs []string
			for _, c := range x.Conjuncts {
				cs = append(cs, fmt.Sprintf("%p", c.Elem()))
			}
			var as []string
			for _, a := range x.Arcs {
				as = append(as, fmt.Sprintf("%p:%d", a, a.ArcType))
			}
			fp[x] = fmt.Sprintf("conjuncts %v arcs %v base %T %p closed %v/%v", cs, as, x.BaseValue, x.BaseValue, x.ClosedRecursive, x.ClosedNonRecursive)
		}
		for _, a := range x.Arcs {
			rec(a, d+1)
		}
		if w, ok := x.BaseValue.(*adt.Vertex); ok {
			rec(w, d+1)
		}
		if dj, ok := x.BaseValue.(*adt.Disjunction); ok {
			for _, dv := range dj.Values {
				if w, ok := dv.(*adt.Vertex); ok {
					rec(w, d+1)
				}
			}
		}
	}
	rec(vx, 0)
	return fp
}

// runImmutable: the sequential half of the property. A fully evaluated value is fingerprinted
// before any cue.Value method has been called on it; then every operation runs once, on one
// goroutine, and no finalized vertex may have changed. This sees mutations that happen on first
// use, which the concurrent check cannot (the states it may share have been used before).
func runImmutable(c Case) (res evid.Result) {
	v := cuecontext.New().CompileString(c.Src)
	finalizeDeep(v)
	if cb := canon.Of(v, 0); strings.Contains(cb, "ERR") {
		res.Skip = true
		return
	}
	before := fingerprint(v)
	order := c.Seqs[0]
	ran := map[int]bool{}
	for _, k := range order {
		ops[k%len(ops)].f(v)
		ran[k%len(ops)] = true
	}
	if c.Mode == "burst" {
		for i, o := range taggedOps {
			o.f(v, fmt.Sprintf("%di%d", tagCounter.Add(1), i))
		}
	}
	after := fingerprint(v)
	for x, b := range before {
		if a, ok := after[x]; ok && a != b {
			res.Fail = fmt.Sprintf("a read-only call changed a finalized vertex of the shared value (depth %d)\nbefore: %s\nafter:  %s\nprogram: %s", len(x.Path()), b, a, c.Src)
			return
		}
	}
	res.NonTrivial = len(before) > 3 && len(ran) >= 3
	if strings.Contains(c.Src, "*") {
		res.Classes = append(res.Classes, "has-default")
	}
	return
}

func genImmutable(t *rapid.T) Case {
	g := &pgen.G{T: t, Tier: 2, F: pgen.FRefTypes | pgen.FListComp | pgen.FStructDisj | pgen.FSelectors | pgen.FDerived}
	w := pgen.GenStructW(t, 2)
	st := g.Program(w, rapid.Bool().Draw(t, "conc"))
	c := Case{Src: st.Body(), State: "finalized", Mode: rapid.SampledFrom([]string{"shared", "burst"}).Draw(t, "mode")}
	c.Seqs = [][]int{rapid.SliceOfN(rapid.IntRange(0, len(ops)-1), 1, 10).Draw(t, "seq")}
	return c
}

func TestImmutable(t *testing.T) {
	evid.Main(t, evid.Check[Case]{Name: "immutable", Gen: genImmutable, Journal: true, Run: runImmutable})
}

// finalizeDeep evaluates every vertex reachable from v (arcs of every kind, disjuncts, pattern
// constraints) through the internal API, without calling any method of cue.Value: the value is
// fully evaluated, but every cue.Value method is used for the first time afterwards.
func finalizeDeep(v cue.Value) {
	c := value.OpContext(v)
	_, vx := value.ToInternal(v)
	seen := map[*adt.Vertex]bool{}
	var rec func(x *adt.Vertex, d int)
	rec = func(x *adt.Vertex, d int) {
		if x == nil || seen[x] || d > 12 {
			return
		}
		seen[x] = true
		x.Finalize(c)
		x = x.DerefValue()
		if !seen[x] {
			seen[x] = true
			x.Finalize(c)
		}
		for _, a := range x.Arcs {
			rec(a, d+1)
		}
		if dj, ok := x.BaseValue.(*adt.Disjunction); ok {
			for _, dv := range dj.Values {
				if w, ok := dv.(*adt.Vertex); ok {
					rec(w, d+1)
				}
			}
		}
		if x.PatternConstraints != nil {
			for _, p := range x.PatternConstraints.Pairs {
				rec(p.Constraint, d+1)
			}
		}
	}
	rec(vx, 0)
}

func prepare(src, state string) cue.Value {
	v := cuecontext.New().CompileString(src)
	switch state {
	case "validated":
		v.Validate()
	case "walked":
		walk(v)
	case "finalized":
		finalizeDeep(v)
	case "deep":
		deepWalk(v)
	}
	return v
}

func run(c Case) (res evid.Result) {
	res.Classes = []string{"state:" + c.State, "mode:" + c.Mode}
	// sequential baseline on a separately compiled copy in the same pre-evaluation state
	bv := prepare(c.Src, c.State)
	cb := canon.Of(bv, 0)
	if strings.Contains(cb, "ERR") {
		res.Skip = true // erroneous programs are outside the registered state (known finding F19)
		res.Classes = append(res.Classes, "fatal-error")
		return
	}
	base := make([]string, len(ops))
	for i, o := range ops {
		base[i] = o.f(bv)
	}
	caseNo := tagCounter.Add(1)
	tbase := make([]string, len(taggedOps))
	if c.Mode == "burst" {
		for i, o := range taggedOps {
			tbase[i] = o.f(bv, fmt.Sprintf("%db%d", caseNo, i))
		}
	}
	var arrived atomic.Int64
	ng := int64(len(c.Seqs))
	var v cue.Value
	if c.Mode != "contexts" {
		v = prepare(c.Src, c.State)
	}
	before := ""
	if c.Mode != "contexts" {
		before = canon.Of(prepare(c.Src, c.State), 0)
	}
	var wg sync.WaitGroup
	var mu sync.Mutex
	var bad []string
	start := make(chan struct{})
	derivers := 0
	for i := range c.Seqs {
		d := false
		for _, k := range c.Seqs[i] {
			if ops[k%len(ops)].derives {
				d = true
			}
		}
		if d {
			derivers++
		}
		wg.Add(1)
		go func(seq []int, skew int) {
			defer wg.Done()
			x := v
			<-start
			for j := 0; j < skew; j++ {
				runtime.Gosched()
			}
			if c.Mode == "contexts" {
				// an independent context per goroutine
				x = prepare(c.Src, c.State)
			}
			if c.Mode == "burst" {
				for r := 0; r < c.Rounds; r++ {
					arrived.Add(1)
					for n := 0; arrived.Load() < ng*int64(r+1); n++ {
						if n%200 == 199 {
							runtime.Gosched()
						}
					}
					for _, k := range c.Burst {
						k %= len(taggedOps)
						if got := taggedOps[k].f(x, fmt.Sprintf("%dc%d", caseNo, r)); got != tbase[k] {
							mu.Lock()
							bad = append(bad, fmt.Sprintf("%s (round %d): got %q, alone it gives %q", taggedOps[k].name, r, got, tbase[k]))
							mu.Unlock()
						}
					}
				}
			}
			for _, k := range seq {
				k %= len(ops)
				r := ops[k].f(x)
				if r != base[k] {
					mu.Lock()
					bad = append(bad, fmt.Sprintf("%s: got %q, alone it gives %q", ops[k].name, r, base[k]))
					mu.Unlock()
				}
			}
		}(c.Seqs[i], c.Skew[i%len(c.Skew)])
	}
	close(start)
	wg.Wait()
	if len(bad) > 0 {
		res.Fail = fmt.Sprintf("a call returned something else than it returns when run alone: %v\nprogram: %s", bad, c.Src)
		return
	}
	if c.Mode != "contexts" {
		if after := canon.Of(v, 0); after != before {
			res.Fail = fmt.Sprintf("the shared value changed\nbefore: %s\nafter:  %s\nprogram: %s", before, after, c.Src)
			return
		}
	}
	res.NonTrivial = derivers >= 2
	return
}

// states in which a value is shared. "deep" and "walked" are race-free on the unchanged tree;
// "validated" and "fresh" are not (known finding F19) and only run on request.
func state(t *rapid.T) string {
	if s := os.Getenv("VERIF_C19_STATE"); s != "" {
		return s
	}
	return rapid.SampledFrom([]string{"deep", "walked", "walked"}).Draw(t, "state")
}

func gen(t *rapid.T) Case {
	g := &pgen.G{T: t, Tier: 2, F: pgen.FRefTypes | pgen.FListComp | pgen.FStructDisj | pgen.FSelectors | pgen.FDerived}
	w := pgen.GenStructW(t, 2)
	st := g.Program(w, rapid.Bool().Draw(t, "conc"))
	c := Case{Src: st.Body(), State: state(t), Mode: rapid.SampledFrom([]string{"shared", "shared", "shared", "contexts", "burst", "burst"}).Draw(t, "mode")}
	ng := rapid.SampledFrom([]int{2, 3, 4, 8, 16}).Draw(t, "ng")
	if c.Mode == "burst" {
		c.Burst = rapid.SliceOfN(rapid.IntRange(0, len(taggedOps)-1), 1, 2).Draw(t, "burst")
		c.Rounds = rapid.IntRange(1, 12).Draw(t, "rounds")
	}
	for i := 0; i < ng; i++ {
		c.Seqs = append(c.Seqs, rapid.SliceOfN(rapid.IntRange(0, len(ops)-1), 1, 6).Draw(t, "seq"))
		c.Skew = append(c.Skew, rapid.IntRange(0, 3).Draw(t, "skew"))
	}
	return c
}

func TestConcurrent(t *testing.T) {
	evid.Main(t, evid.Check[Case]{Name: "concurrent", Gen: gen, Journal: true, Run: func(c Case) evid.Result {
		reps := 1
		if os.Getenv("VERIF_MODE") == "replay" {
			reps = 40 // a saved schedule-dependent case is given many chances to show the race again
		}
		var r evid.Result
		for i := 0; i < reps; i++ {
			if r = run(c); r.Fail != "" {
				return r
			}
		}
		return r
	}})
}
