// Package c02: parsing, compiling, evaluating and exporting never crash and are repeatable.
package c02

import (
	"bytes"
	"fmt"
	"os"
	"os/exec"
	"strings"
	"testing"
	"time"

	"cuelang.org/go/cue"
	"cuelang.org/go/cue/cuecontext"
	"cuelang.org/go/cue/errors"
	"cuelang.org/go/cue/format"
	"cuelang.org/go/cue/parser"
	"cuelang.org/go/encoding/yaml"
	"cuelang.org/go/verifh/corpus"
	"cuelang.org/go/verifh/evid"
	"cuelang.org/go/verifh/pgen"
	"pgregory.net/rapid"
)

var excl = os.Getenv("VERIF_MODE") != "replay"

type Case struct {
	Src  []byte
	Kind string
}

// pipeline runs parse -> compile -> evaluate -> validate -> export and returns
// a transcript of every stage (output bytes or error text). reached reports
// whether the input got as far as the evaluator.
func pipeline(src []byte) (out string, reached bool) {
	var sb strings.Builder
	f, err := parser.ParseFile("in.cue", src, parser.ParseComments)
	if err != nil {
		fmt.Fprintf(&sb, "parse: %s\n", errors.Details(err, nil))
		return sb.String(), false
	}
	ctx := cuecontext.New()
	v := ctx.BuildFile(f)
	fmt.Fprintf(&sb, "build: %s\n", errors.Details(v.Err(), nil))
	reached = true
	fmt.Fprintf(&sb, "validate: %s\n", errors.Details(v.Validate(), nil))
	fmt.Fprintf(&sb, "concrete: %s\n", errors.Details(v.Validate(cue.Concrete(true)), nil))
	for _, o := range [][]cue.Option{{cue.Final()}, {}, {cue.All(), cue.Docs(true)}} {
		b, err := format.Node(v.Syntax(o...))
		fmt.Fprintf(&sb, "syntax: %s %v\n", b, err)
	}
	j, err := v.MarshalJSON()
	fmt.Fprintf(&sb, "json: %s %s\n", j, errors.Details(err, nil))
	y, err := yaml.Encode(v)
	fmt.Fprintf(&sb, "yaml: %s %s\n", y, errors.Details(err, nil))
	return sb.String(), reached
}

type result struct {
	out     string
	reached bool
	panic   string
}

func guarded(src []byte, limit time.Duration) (result, bool) {
	ch := make(chan result, 1)
	go func() {
		var r result
		defer func() {
			if p := recover(); p != nil {
				r.panic = fmt.Sprint(p)
			}
			ch <- r
		}()
		r.out, r.reached = pipeline(src)
	}()
	select {
	case r := <-ch:
		return r, true
	case <-time.After(limit):
		return result{}, false
	}
}

var abandoned int

func trunc(b []byte) string {
	if len(b) > 1500 {
		return string(b[:1500]) + "…"
	}
	return string(b)
}

func run(c Case) (res evid.Result) {
	res.Classes = []string{c.Kind}
	if e := excluded(c.Src); excl && e != "" {
		res.Skip, res.Excluded = true, e
		return
	}
	limit := 20 * time.Second
	if os.Getenv("VERIF_MODE") == "replay" {
		limit = 100 * time.Second
	}
	r1, ok := guarded(c.Src, limit)
	if !ok {
		abandoned++
		evid.Count("slow_inputs_over_20s", 1)
		res.Skip = true
		res.Classes = append(res.Classes, "slow")
		res.Note = "did not finish within the time bound (inconclusive, not a violation): " + trunc(c.Src)
		if abandoned > 4 {
			// too many runaway goroutines in this process: stop generating work here
			time.Sleep(time.Hour)
		}
		return
	}
	if r1.panic != "" {
		res.Fail = fmt.Sprintf("panic escaped the API: %s\ninput:\n%s", r1.panic, trunc(c.Src))
		return
	}
	r2, ok := guarded(c.Src, limit)
	if !ok {
		res.Skip = true
		return
	}
	if r2.panic != "" {
		res.Fail = fmt.Sprintf("panic escaped the API on the second run: %s\ninput:\n%s", r2.panic, trunc(c.Src))
		return
	}
	if r1.out != r2.out {
		res.Fail = fmt.Sprintf("two runs in one process differ\ninput:\n%s\nfirst:\n%s\nsecond:\n%s", trunc(c.Src), r1.out, r2.out)
		return
	}
	res.NonTrivial = r1.reached
	if r1.reached {
		res.Classes = append(res.Classes, "reaches-evaluator")
		if strings.Contains(r1.out, "json: {") || strings.Contains(r1.out, "json: [") {
			res.Classes = append(res.Classes, "exports-data")
		}
	} else {
		res.Classes = append(res.Classes, "syntax-error")
	}
	// another process: a subsample
	ncases++
	if r1.reached && ncases%150 == 0 && os.Getenv("VERIF_MODE") != "replay" {
		f, err := os.CreateTemp("", "vf-c02-*.cue")
		if err == nil {
			f.Write(c.Src)
			f.Close()
			defer os.Remove(f.Name())
			cmd := exec.Command(os.Args[0], "-test.run", "^TestDump$")
			cmd.Env = append(os.Environ(), "VERIF_DUMP="+f.Name())
			outb, err := cmd.Output()
			if err == nil {
				if i := bytes.Index(outb, []byte("BEGIN-DUMP\n")); i >= 0 {
					o := outb[i+len("BEGIN-DUMP\n"):]
					if j := bytes.Index(o, []byte("END-DUMP")); j >= 0 {
						o = o[:j]
					}
					evid.Count("compared_with_another_process", 1)
					if string(o) != r1.out {
						res.Fail = fmt.Sprintf("another process gives different output\ninput:\n%s\nthis process:\n%s\nother process:\n%s", trunc(c.Src), r1.out, o)
						return
					}
				}
			}
		}
	}
	return
}

var ncases int

// TestDump prints the pipeline transcript of the file named by VERIF_DUMP (used for the cross-process comparison).
func TestDump(t *testing.T) {
	p := os.Getenv("VERIF_DUMP")
	if p == "" {
		t.Skip()
	}
	b, err := os.ReadFile(p)
	if err != nil {
		t.Fatal(err)
	}
	out, _ := pipeline(b)
	fmt.Printf("BEGIN-DUMP\n%sEND-DUMP\n", out)
}

// ---- exclusions tied to known findings ----------------------------------------------------------


func excluded(src []byte) string {
	// (F1, fixed in /repo: required fields used to be excluded because {a!: 1, >1} overflowed the stack)
	return ""
}

// ---- generators ---------------------------------------------------------------------------------

var wildFragments = []string{
	"a: b, b: a", "a: a + 1", "a: {b: a}", "a: [a]", "a: b.c, b: {c: a}", "#D: {x: #D}", "a: #D, #D: {n?: #D}", "x: close({a: 1}) & {b: 2}", "l: [...int] & [1, \"a\"]",
	"a: 1 | 2, a: 2 | 3", "a: *1 | *2", "a: (b | 1) & int, b: a", "for k, v in a {(k): v}, a: {x: 1}", "a: {for x in [1, 2] {\"\\(x)\": x}}", "if a > 1 {b: 1}, a: int",
	"a: len(b), b: [1, 2]", "a: and([int, >1])", "a: or([])", "a: div(1, 0)", "a: 1 / 0", "a: \"\\(b)\", b: int", "a: b[1], b: [0]", "a: b.x, b: {}", "let x = a, a: x",
	"[string]: int, a: \"s\"", "a: {[=~\"^x\"]: 1, xa: 2}", "a?: 1, b: a", "a: _|_", "a: 1 & 2", "a: {b: 1} & {b: 2}", "_h: 1, #d: _h, a: #d", "a: b & {c: 1}, b: {c: int, ...}",
	"a: matchN(1, [int, string]) & 1", "a: struct.MinFields(1)", "import \"strings\"\na: strings.ToUpper(\"x\")", "a: {#x: 1, b: #x}", "a: b, b: c, c: d, d: a | 1", "x: y: z: x",
	"a: {b: a.c, c: a.b}", "a: [for x in a {x}]", "a: {b: 1}.b", "a: [1, 2][2]", "a: 9223372036854775808 * 9223372036854775808", "a: 1e999999", "a: -0", "a: '\\xff' + \"s\"",
}

func gen(t *rapid.T) Case {
	files := corpus.Files(2000)
	switch k := rapid.IntRange(0, 16).Draw(t, "kind"); {
	case k >= 14:
		return Case{Src: []byte(genDeclSoup(t)), Kind: "decl-soup"}
	case k == 10 || k == 11:
		return Case{Src: []byte(genHostileOperands(t)), Kind: "hostile-operands"}
	case k == 12 || k == 13:
		return Case{Src: []byte(genString(t)), Kind: "string-soup"}
	case k < 5:
		f := files[rapid.IntRange(0, len(files)-1).Draw(t, "file")]
		return Case{Src: corpus.Mutate(t, f.Data, rapid.IntRange(0, 3).Draw(t, "nmut"), files), Kind: "corpus-mutation"}
	case k < 8:
		g := &pgen.G{T: t, Tier: 2, F: pgen.FRefTypes | pgen.FListComp | pgen.FConflict | pgen.FStructDisj | pgen.FSelectors}
		w := pgen.GenStructW(t, 2)
		st := g.Program(w, rapid.Bool().Draw(t, "concrete"))
		src := []byte(st.Body())
		return Case{Src: corpus.Mutate(t, src, rapid.IntRange(0, 2).Draw(t, "nmut"), files), Kind: "generated-program"}
	default:
		n := rapid.IntRange(1, 4).Draw(t, "nfrag")
		var parts []string
		for i := 0; i < n; i++ {
			parts = append(parts, rapid.SampledFrom(wildFragments).Draw(t, "frag"))
		}
		src := strings.Join(parts, "\n")
		if rapid.Bool().Draw(t, "nest") {
			src = "w: {" + strings.ReplaceAll(src, "\n", ", ") + "}"
			if strings.Contains(src, "import") {
				src = strings.Join(parts, "\n")
			}
		}
		return Case{Src: corpus.Mutate(t, []byte(src), rapid.IntRange(0, 1).Draw(t, "nmut"), files), Kind: "wild-fragments"}
	}
}

func TestPipeline(t *testing.T) {
	evid.Main(t, evid.Check[Case]{Name: "pipeline", Gen: gen, Run: run, Journal: true})
}

// TestCorpus: every unmodified corpus file (enumeration).
func TestCorpus(t *testing.T) {
	shard, n := evid.Shard()
	files := corpus.Files(20000)
	evid.Enumerate(t, evid.Check[Case]{Name: "corpus", Run: run, Journal: true}, func(yield func(Case) bool) {
		for i, f := range files {
			if i%n != shard {
				continue
			}
			if !yield(Case{Src: f.Data, Kind: "corpus"}) {
				return
			}
		}
	}, true)
}
