package c02

import (
	"fmt"
	"strings"
	"testing"
	"time"

	"cuelang.org/go/verifh/evid"
	"pgregory.net/rapid"
)

var hostileConsts = []string{"0", "-1", "1", "255", "256", "65536", "2147483647", "2147483648", "4294967296", "9223372036854775807", "9223372036854775808", "18446744073709551615", "18446744073709551616",
	"12345678901234567890123456789012345678901234567890", "1e400", "1e-400", "0.1", "1.5", "-0.0", "1e34", "9999999999999999999999999999999999", "100000000000", "1K", "1Pi"}

var operandTemplates = []string{`a: "ab" * %s`, `a: 'xy' * %s`, `a: [1, 2] * %s`, `a: %s * "ab"`, `a: %s + %s`, `a: %s * %s`, `a: %s - %s`, `a: %s / %s`, `a: 1 / 3, b: %s + %s`, `a: div(%s, %s)`, `a: mod(%s, %s)`, `a: quo(%s, %s)`, `a: rem(%s, %s)`,
	`a: [1, 2, 3][%s]`, `a: "abc"[%s]`, `a: [1, 2, 3][%s:%s]`, `a: len([1] * %s)`, "import \"strings\"\na: strings.Repeat(\"ab\", %s)", "import \"list\"\na: list.Repeat([1], %s)",
	"import \"math\"\na: math.Pow(%s, %s)", "import \"math\"\na: math.Floor(%s)", `a: >=%s & <=%s & int`, `a: uint8 & %s`, `a: %s & number`, `a: "\(%s)"`, "import \"strconv\"\na: strconv.FormatInt(%s, %s)", `a: %s == %s`, `a: %s < %s`,
	"import \"strings\"\na: strings.SplitN(\"a,b,c\", \",\", %s)", `a: [...int] & [%s, %s], b: a[%s]`}

var stringOpeners = []string{"\"", "\"\"\"\n", "'", "'''\n", "#\"", "#\"\"\"\n", "#'''\n", "##\""}
var stringPieces = []string{"a", "\n", "\n\t", "\xff", "\xc3", "\xed\xa0\x80", "\r", "\r\n", "\\", "\\(", "\\(a)", "\\#(", "\"", "'", "#", "\"\"\"", "'''", "\\n", "\\u00e9", "\\x", "\\377", " ", "\t", "\x00", "\ufeff", "é", "\\\n"}

// genString builds a (mostly malformed) string literal from an opener, hostile pieces and a closer.
func genString(t *rapid.T) string {
	open := rapid.SampledFrom(stringOpeners).Draw(t, "sopen")
	var sb strings.Builder
	sb.WriteString("x: " + open)
	n := rapid.IntRange(0, 5).Draw(t, "spieces")
	for i := 0; i < n; i++ {
		sb.WriteString(rapid.SampledFrom(stringPieces).Draw(t, "spiece"))
	}
	if rapid.IntRange(0, 3).Draw(t, "sclose") > 0 {
		cl := strings.TrimSuffix(open, "\n")
		h := strings.Count(cl, "#")
		cl = strings.TrimLeft(cl, "#")
		if strings.HasSuffix(open, "\n") {
			sb.WriteString("\n")
		}
		sb.WriteString(cl + strings.Repeat("#", h))
	}
	sb.WriteString("\n")
	return sb.String()
}

// boundaryConsts are the constants used where the operand is a repetition count, a length or an
// index: only values that are tiny or beyond every limit (they must be rejected by a limit check,
// not executed: mid-size counts are legitimately expensive and would only measure the machine).
var boundaryConsts = []string{"0", "-1", "1", "2", "3", "9223372036854775807", "9223372036854775808", "18446744073709551615", "18446744073709551616", "12345678901234567890123456789012345678901234567890", "1e400", "0.1", "1.5", "-0.0"}

func genHostileOperands(t *rapid.T) string {
	tpl := rapid.SampledFrom(operandTemplates).Draw(t, "tpl")
	pool := hostileConsts
	if strings.Contains(tpl, "* %s") || strings.Contains(tpl, "%s * \"") || strings.Contains(tpl, "Repeat") || strings.Contains(tpl, "Range") || strings.Contains(tpl, "[%s") || strings.Contains(tpl, "Pow") || strings.Contains(tpl, "SplitN") {
		pool = boundaryConsts
	}
	var args []any
	for i := 0; i < strings.Count(tpl, "%s"); i++ {
		c := rapid.SampledFrom(pool).Draw(t, "const")
		if rapid.IntRange(0, 5).Draw(t, "neg") == 0 {
			c = "-" + c
		}
		args = append(args, c)
	}
	return fmt.Sprintf(tpl, args...)
}

// sentinels are re-evaluated after generated inputs: their transcript must never change within a
// process, whatever was evaluated in between (no state may leak from one evaluation into another).
var sentinels = []string{
	"a: 1 / 3, b: 2 / 7.0, c: 1e100 / 3",
	"a: 12345678901234567890123456789012345678901234567890 + 1, b: a * a",
	"import \"math\"\na: math.Pow(2, 0.5), b: math.Floor(1e40), c: math.MultipleOf(10, 0.1)",
	"a: {b: *1 | int, c: [...string]}, d: a & {c: [\"x\"]}, e: \"\\(d.b)\"",
	"#D: {x: int, y?: string}, v: #D & {x: 1}, w: [for k, z in v {k}]",
}

var sentinelBase []string

func sentinelCheck(context string) string {
	var cur []string
	for _, s := range sentinels {
		out, _ := pipeline([]byte(s))
		cur = append(cur, out)
	}
	if sentinelBase == nil {
		sentinelBase = cur
		return ""
	}
	for i := range cur {
		if cur[i] != sentinelBase[i] {
			return fmt.Sprintf("the same program gives different output later in the same process (%s)\nprogram:\n%s\nfirst:\n%s\nlater:\n%s", context, sentinels[i], sentinelBase[i], cur[i])
		}
	}
	return ""
}

type HistCase struct {
	Inputs [][]byte // evaluated one after the other; the sentinels are evaluated before and after
}

// TestHistory: state must not leak between evaluations in one process.
func TestHistory(t *testing.T) {
	evid.Main(t, evid.Check[HistCase]{Name: "history", Journal: true, Gen: func(t *rapid.T) HistCase {
		n := rapid.IntRange(1, 4).Draw(t, "n")
		var h HistCase
		for i := 0; i < n; i++ {
			h.Inputs = append(h.Inputs, gen(t).Src)
		}
		return h
	}, Run: func(h HistCase) (res evid.Result) {
		// the first evaluation in a fresh process defines the baseline (replay: also fresh)
		if bad := sentinelCheck("at start"); bad != "" {
			res.Fail = bad
			return
		}
		for _, in := range h.Inputs {
			if e := excluded(in); excl && e != "" {
				res.Skip, res.Excluded = true, e
				return
			}
			r, ok := guarded(in, 20*time.Second)
			if !ok {
				res.Skip = true
				return
			}
			if r.panic != "" {
				res.Fail = fmt.Sprintf("panic escaped the API: %s\ninput:\n%s", r.panic, trunc(in))
				return
			}
		}
		if bad := sentinelCheck(fmt.Sprintf("after evaluating %q", h.Inputs)); bad != "" {
			res.Fail = bad
			return
		}
		res.NonTrivial = len(h.Inputs) >= 2
		return
	}})
}

// declSoup: struct bodies that mix every kind of declaration with embedded scalars, bounds and
// validators. The evaluator decides late whether such a node is a struct or a scalar, and the
// interplay of pending (comprehension) arcs, optional/required fields and embedded constraints is
// where it re-enters itself (F1: {a!: 1, >1} and {if false {a: 1}, >1} overflowed the stack).
var soupDecls = []string{
	"a: 1", "a?: 1", "a!: 1", "#b: 2", "_c: 3", "b: a", "a: int", "a!: int", "a?: string",
	"if false {a: 1}", "if true {a: 1}", "if x {a: 1}", "if false {a!: 1}", "if x {a!: 1}", "if false {a?: 1}", "if false {1}", "if true {>0}",
	"for k, v in {} {(k): v}", "for v in [1] {\"k\\(v)\": v}", "for v in [] {a: v}", "for v in [1] {v}",
	"let L = 1", "[string]: int", "[=~\"^a\"]: _", "...", "@attr(x)",
	">1", "<5", ">=0 & <10", "!=1", "=~\"x\"", "int", "number", "string", "5", "\"s\"", "null", "_", "_|_", "[1]", "[...]", "{}", "{a: 1}", "{a?: 1}", "{>1}", "{if false {a: 1}}",
	"int & >1", "*1 | int", "1 | 2", ">1 | string", "close({})", "#D", "y", "len(\"ab\")", "matchN(1, [>1])", "strings.MinRunes(1)", "struct.MinFields(0)", "list.MinItems(0)",
}

var soupOperands = []string{"", "", " & 3", " & 0", " & {a: 1}", " & {}", " & _", " & >2", " & \"x\"", " & {a: 1, b: 2}", " & [1]", " | 7", " & #D"}

func genDeclSoup(t *rapid.T) string {
	n := rapid.IntRange(2, 5).Draw(t, "ndecl")
	var ds []string
	for i := 0; i < n; i++ {
		ds = append(ds, rapid.SampledFrom(soupDecls).Draw(t, "decl"))
	}
	body := "{" + strings.Join(ds, ", ") + "}"
	var sb strings.Builder
	src := body + rapid.SampledFrom(soupOperands).Draw(t, "operand")
	if strings.Contains(src, "strings.") {
		sb.WriteString("import \"strings\"\n")
	}
	if strings.Contains(src, "struct.") {
		sb.WriteString("import \"struct\"\n")
	}
	if strings.Contains(src, "list.") {
		sb.WriteString("import \"list\"\n")
	}
	sb.WriteString("x: bool\ny: int\n#D: {a?: int}\n")
	switch rapid.IntRange(0, 3).Draw(t, "place") {
	case 0:
		sb.WriteString("c: " + src + "\n")
	case 1:
		sb.WriteString("c: " + body + "\nd: c" + rapid.SampledFrom(soupOperands).Draw(t, "operand2") + "\n")
	case 2:
		sb.WriteString("#C: " + src + "\nd: #C\ne: [#C, #C & _]\n")
	default:
		sb.WriteString("c: [..." + body + "] & [_, 3, {a: 1}]\n")
	}
	return sb.String()
}
