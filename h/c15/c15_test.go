// Package c15: module archives round-trip and can never write outside their directory.
package c15

import (
	"archive/zip"
	"bytes"
	"fmt"
	"io"
	"io/fs"
	"os"
	"path"
	"path/filepath"
	"sort"
	"strings"
	"testing"
	"time"

	"cuelang.org/go/mod/module"
	"cuelang.org/go/mod/modzip"
	"cuelang.org/go/verifh/evid"
	"pgregory.net/rapid"
)

var mv = module.MustNewVersion("example.com/m@v0", "v0.0.1")

const modFile = "module: \"example.com/m@v0\"\nlanguage: version: \"v0.9.0\"\n"

var names = []string{"a.cue", "b/c.cue", "b/d/e.cue", "CUE.MOD/module.cue", "cue.mod/MODULE.cue", "../evil", "/abs/evil", "a/../../evil", "b\\c.cue", "A.cue", "a.CUE", "b", "b/", "sub/cue.mod/module.cue",
	"cue.mod/local-module.cue", "cue.mod/vendor/x.cue", "cue.mod/pkg/x.cue", "cue.mod/usr/x.cue", "cue.mod/gen/x.cue", "vendor/x.cue", "LICENSE", "sub/LICENSE", "con", "CON.cue", "aux.cue", "nul", "com1.txt", "a..b", "a/./b", "a//b", ".", "..", "",
	"x\x00y", "é.cue", "é.cue", "name with space", "x:y", "x*y", "x?y", "x|y", "x<y", "x\"y", "x'y", "x;y", "x`y", "long/" + strings.Repeat("d/", 40) + "f.cue", strings.Repeat("n", 240) + ".cue", "cue.mod", ".hg_archival.txt", ".git/config", ".hidden",
	"ｆｕｌｌ.cue", "ß.cue", "SS.cue", "ss.cue", "trailing.", "trailing ", " leading", "a.cue/b", "b/c.cue/d", "README.md", "x~1", "‮.cue", "�.cue", "\xff.cue", "a/b/../c.cue", "./a.cue", "a/"}

// ---- 1. hostile archives: containment -------------------------------------------------------------

type Entry struct {
	Name     string
	Size     int
	Mode     string // "" regular, symlink, dir, pipe, device, setuid
	Declared int    // -1 = real size
	Dup      bool   // write the entry twice
}

type ZipCase struct {
	Entries []Entry
	NoMod   bool // omit cue.mod/module.cue
	Trail   int  // bytes of trailing garbage
}

func buildZip(c ZipCase) ([]byte, bool) {
	var buf bytes.Buffer
	zw := zip.NewWriter(&buf)
	es := c.Entries
	if !c.NoMod {
		es = append([]Entry{{Name: "cue.mod/module.cue", Size: -7, Declared: -1}}, es...)
	}
	for _, e := range es {
		data := bytes.Repeat([]byte("x"), max(e.Size, 0))
		if e.Size == -7 {
			data = []byte(modFile)
		}
		n := 1
		if e.Dup {
			n = 2
		}
		for i := 0; i < n; i++ {
			h := &zip.FileHeader{Name: e.Name, Method: zip.Store}
			switch e.Mode {
			case "symlink":
				h.SetMode(fs.ModeSymlink | 0o777)
				data = []byte("../../outside")
			case "dir":
				h.SetMode(fs.ModeDir | 0o755)
			case "pipe":
				h.SetMode(fs.ModeNamedPipe | 0o644)
			case "device":
				h.SetMode(fs.ModeDevice | 0o644)
			case "setuid":
				h.SetMode(fs.ModeSetuid | 0o755)
			}
			if e.Declared >= 0 {
				h.UncompressedSize64 = uint64(e.Declared)
				h.CompressedSize64 = uint64(len(data))
				w, err := zw.CreateRaw(h)
				if err != nil {
					return nil, false
				}
				w.Write(data)
			} else {
				w, err := zw.CreateHeader(h)
				if err != nil {
					return nil, false
				}
				w.Write(data)
			}
		}
	}
	if zw.Close() != nil {
		return nil, false
	}
	return append(buf.Bytes(), bytes.Repeat([]byte("G"), c.Trail)...), true
}

func snapshot(root string) map[string]string {
	m := map[string]string{}
	filepath.WalkDir(root, func(p string, d fs.DirEntry, err error) error {
		if err != nil {
			return nil
		}
		info, ierr := d.Info()
		if ierr != nil {
			return nil
		}
		rel, _ := filepath.Rel(root, p)
		desc := info.Mode().Type().String()
		if info.Mode().IsRegular() {
			b, _ := os.ReadFile(p)
			desc = fmt.Sprintf("file %d %x", len(b), b[:min(8, len(b))])
		}
		m[rel] = desc
		return nil
	})
	return m
}

func scratch() string {
	base := os.Getenv("VERIF_SCRATCH")
	if base == "" {
		base = os.TempDir()
	}
	d, err := os.MkdirTemp(base, "c15-")
	if err != nil {
		panic(err)
	}
	return d
}

func cleanup(root string) {
	filepath.WalkDir(root, func(p string, d fs.DirEntry, err error) error { os.Chmod(p, 0o777); return nil })
	os.RemoveAll(root)
}

func runZip(c ZipCase) (res evid.Result) {
	defer func() {
		if r := recover(); r != nil {
			res.Fail = fmt.Sprintf("panic: %v", r)
		}
	}()
	zb, ok := buildZip(c)
	if !ok {
		res.Skip = true
		return
	}
	root := scratch()
	defer cleanup(root)
	sand := filepath.Join(root, "sand")
	os.MkdirAll(filepath.Join(sand, "sibling"), 0o755)
	os.WriteFile(filepath.Join(sand, "sentinel"), []byte("s"), 0o644)
	os.WriteFile(filepath.Join(sand, "sibling", "keep"), []byte("k"), 0o644)
	zf := filepath.Join(root, "m.zip")
	os.WriteFile(zf, zb, 0o644)
	before := snapshot(sand)
	target := filepath.Join(sand, "t", "target")
	err := modzip.Unzip(target, mv, zf)
	after := snapshot(sand)
	if err == nil {
		res.Classes = append(res.Classes, "accepted")
	} else {
		res.Classes = append(res.Classes, "rejected")
	}
	var bad []string
	for p, d := range after {
		if b, ok := before[p]; ok {
			if b != d {
				bad = append(bad, "modified "+p)
			}
			continue
		}
		if p != "t" && p != "t/target" && !strings.HasPrefix(p, "t/target/") {
			bad = append(bad, "created outside the target: "+p)
		}
		if !strings.HasPrefix(d, "file") && d != "d---------" {
			bad = append(bad, "not a regular file or directory: "+p+" "+d)
		}
	}
	for p := range before {
		if _, ok := after[p]; !ok {
			bad = append(bad, "removed "+p)
		}
	}
	if ents, _ := os.ReadDir(root); len(ents) != 2 {
		bad = append(bad, fmt.Sprintf("the directory above the sandbox has %d entries", len(ents)))
	}
	sort.Strings(bad)
	if len(bad) > 0 {
		res.Fail = fmt.Sprintf("containment violated (Unzip err=%v): %v\nentries: %+v", err, bad, c.Entries)
		return
	}
	if err == nil {
		for _, e := range c.Entries {
			if e.Declared >= 0 && e.Mode == "" {
				info, serr := os.Stat(filepath.Join(target, e.Name))
				if serr == nil && info.Mode().IsRegular() && info.Size() > int64(e.Declared) {
					res.Fail = fmt.Sprintf("extracted file %q has %d bytes, more than the declared %d", e.Name, info.Size(), e.Declared)
					return
				}
			}
		}
		// an accepted archive must also pass CheckZipFile, and extract only what CheckZip calls valid
		cf, cerr := modzip.CheckZipFile(mv, zf)
		if cerr != nil || cf.Err() != nil {
			res.Fail = fmt.Sprintf("Unzip accepted an archive that CheckZipFile rejects: %v / %v\nentries: %+v", cerr, cf.Err(), c.Entries)
			return
		}
		valid := map[string]bool{}
		for _, v := range cf.Valid {
			valid[v] = true
		}
		for p, d := range after {
			if strings.HasPrefix(p, "t/target/") && strings.HasPrefix(d, "file") {
				if !valid[filepath.ToSlash(strings.TrimPrefix(p, "t/target/"))] {
					res.Fail = fmt.Sprintf("extracted %q which CheckZip does not list as valid (%v)", p, cf.Valid)
					return
				}
			}
		}
	}
	res.NonTrivial = true
	for _, e := range c.Entries {
		if e.Mode != "" || e.Declared >= 0 || e.Dup {
			res.Classes = append(res.Classes, "forged-header")
			break
		}
	}
	return
}

func genZip(t *rapid.T) ZipCase {
	n := rapid.IntRange(1, 5).Draw(t, "n")
	c := ZipCase{NoMod: rapid.IntRange(0, 15).Draw(t, "nomod") == 0}
	if rapid.IntRange(0, 10).Draw(t, "trail") == 0 {
		c.Trail = rapid.IntRange(1, 64).Draw(t, "ntrail")
	}
	for i := 0; i < n; i++ {
		e := Entry{Name: rapid.SampledFrom(names).Draw(t, "name"), Declared: -1, Size: rapid.IntRange(0, 40).Draw(t, "size")}
		if rapid.IntRange(0, 3).Draw(t, "mode") == 0 {
			e.Mode = rapid.SampledFrom([]string{"symlink", "dir", "pipe", "device", "setuid"}).Draw(t, "modek")
		}
		if rapid.IntRange(0, 6).Draw(t, "lie") == 0 {
			e.Declared = rapid.IntRange(0, 60).Draw(t, "decl")
		}
		if rapid.IntRange(0, 12).Draw(t, "big") == 0 {
			// oversized module / licence files: the limit applies to the declared size
			e.Name = rapid.SampledFrom([]string{"cue.mod/module.cue", "LICENSE"}).Draw(t, "bigname")
			e.Declared = rapid.SampledFrom([]int{16 << 20, 16<<20 + 1, 17 << 20}).Draw(t, "bigsize")
			c.NoMod = c.NoMod || e.Name == "cue.mod/module.cue"
		}
		e.Dup = rapid.IntRange(0, 15).Draw(t, "dup") == 0
		c.Entries = append(c.Entries, e)
	}
	return c
}

func TestHostileZip(t *testing.T) {
	evid.Main(t, evid.Check[ZipCase]{Name: "hostile-zip", Gen: genZip, Run: runZip})
}

// ---- 2. round trip and agreement of the three checks -------------------------------------------------

type File struct {
	Name string
	Data string
}

type TreeCase struct {
	Files []File
}

type memFile struct {
	name string
	data []byte
}

type memIO struct{}

func (memIO) Path(f memFile) string                { return f.name }
func (memIO) Lstat(f memFile) (os.FileInfo, error) { return memInfo{f}, nil }
func (memIO) Open(f memFile) (io.ReadCloser, error) {
	return io.NopCloser(bytes.NewReader(f.data)), nil
}

type memInfo struct{ f memFile }

func (i memInfo) Name() string       { return path.Base(i.f.name) }
func (i memInfo) Size() int64        { return int64(len(i.f.data)) }
func (i memInfo) Mode() os.FileMode  { return 0o644 }
func (i memInfo) ModTime() time.Time { return time.Time{} }
func (i memInfo) IsDir() bool        { return false }
func (i memInfo) Sys() any           { return nil }

func set(s []string) map[string]bool {
	m := map[string]bool{}
	for _, x := range s {
		m[x] = true
	}
	return m
}

func errNames(l modzip.FileErrorList) map[string]bool {
	m := map[string]bool{}
	for _, e := range l {
		m[e.Path] = true
	}
	return m
}

func runTree(c TreeCase) (res evid.Result) {
	defer func() {
		if r := recover(); r != nil {
			res.Fail = fmt.Sprintf("panic: %v", r)
		}
	}()
	var files []memFile
	seen := map[string]bool{}
	for _, f := range c.Files {
		if seen[f.Name] {
			continue
		}
		seen[f.Name] = true
		files = append(files, memFile{f.Name, []byte(f.Data)})
	}
	cf, err := modzip.CheckFiles(files, memIO{})
	if err != nil {
		res.Skip = true
		return
	}
	// reference model for the submodule rule, on simple names only: a file is left out exactly when
	// one of its proper ancestor directories (other than the root) holds a cue.mod/module.cue
	has := map[string]bool{}
	for _, f := range files {
		has[f.name] = true
	}
	validSet := set(cf.Valid)
	for _, f := range files {
		if !simpleName(f.name) {
			continue
		}
		inSub := false
		for d := path.Dir(f.name); d != "." && d != "/"; d = path.Dir(d) {
			if has[d+"/cue.mod/module.cue"] {
				inSub = true
			}
		}
		if inSub == validSet[f.name] {
			res.Fail = fmt.Sprintf("CheckFiles lists %q as valid=%v, but by the submodule rule it is inside-another-module=%v\nfiles: %q", f.name, validSet[f.name], inSub, names2(files))
			return
		}
	}
	var buf bytes.Buffer
	cerr := modzip.Create(&buf, mv, files, memIO{})
	if (cerr == nil) != (cf.Err() == nil) {
		res.Fail = fmt.Sprintf("CheckFiles says err=%v but Create says err=%v\nfiles: %q", cf.Err(), cerr, names2(files))
		return
	}
	res.NonTrivial = false
	for _, f := range files {
		if !plain(f.name) {
			res.NonTrivial = true
		}
	}
	if cerr != nil {
		res.Classes = append(res.Classes, "rejected")
		return
	}
	res.Classes = append(res.Classes, "accepted")
	// every archive the creator emits passes the archive check
	_, _, zcf, zerr := modzip.CheckZip(mv, bytes.NewReader(buf.Bytes()), int64(buf.Len()))
	if zerr != nil || zcf.Err() != nil {
		res.Fail = fmt.Sprintf("archive emitted by Create fails CheckZip: %v / %v\nfiles: %q", zerr, zcf.Err(), names2(files))
		return
	}
	want := set(cf.Valid)
	if fmt.Sprint(sorted(zcf.Valid)) != fmt.Sprint(sorted(cf.Valid)) {
		res.Fail = fmt.Sprintf("CheckZip valid set %q differs from CheckFiles valid set %q", sorted(zcf.Valid), sorted(cf.Valid))
		return
	}
	// extract and compare
	root := scratch()
	defer cleanup(root)
	zf := filepath.Join(root, "m.zip")
	os.WriteFile(zf, buf.Bytes(), 0o644)
	target := filepath.Join(root, "target")
	if err := modzip.Unzip(target, mv, zf); err != nil {
		res.Fail = fmt.Sprintf("Unzip of an archive emitted by Create fails: %v\nfiles: %q", err, names2(files))
		return
	}
	got := map[string]string{}
	filepath.WalkDir(target, func(p string, d fs.DirEntry, err error) error {
		if err == nil && d.Type().IsRegular() {
			rel, _ := filepath.Rel(target, p)
			b, _ := os.ReadFile(p)
			got[filepath.ToSlash(rel)] = string(b)
		}
		return nil
	})
	for _, f := range files {
		if want[f.name] {
			if g, ok := got[f.name]; !ok || g != string(f.data) {
				res.Fail = fmt.Sprintf("file %q is not reproduced by Create+Unzip (present=%v)", f.name, ok)
				return
			}
			delete(got, f.name)
		}
	}
	if len(got) != 0 {
		res.Fail = fmt.Sprintf("Create+Unzip produced extra files %v", got)
		return
	}
	// the directory check agrees with the file-list check on files representable on disk
	dir := filepath.Join(root, "dir")
	representable := true
	for _, f := range files {
		if strings.ContainsAny(f.name, "\x00\\") || strings.HasPrefix(f.name, "/") || strings.Contains(f.name, "..") || f.name == "" || strings.HasSuffix(f.name, "/") || strings.Contains(f.name, "//") || strings.Contains(f.name, "/./") || strings.HasPrefix(f.name, "./") {
			representable = false
			break
		}
		p := filepath.Join(dir, filepath.FromSlash(f.name))
		if os.MkdirAll(filepath.Dir(p), 0o755) != nil || os.WriteFile(p, f.data, 0o644) != nil {
			representable = false
			break
		}
	}
	if representable {
		dcf, derr := modzip.CheckDir(dir)
		if derr == nil {
			rel := func(p string) string {
				r, err := filepath.Rel(dir, p)
				if err != nil {
					return p
				}
				return filepath.ToSlash(r)
			}
			dvalid := map[string]bool{}
			for _, v := range dcf.Valid {
				dvalid[rel(v)] = true
			}
			accounted := func(l modzip.FileErrorList, name string) bool {
				for _, e := range l {
					p := rel(e.Path)
					if p == name || strings.HasPrefix(name, p+"/") {
						return true
					}
				}
				return false
			}
			for _, f := range files {
				// CheckDir omits vendored/VCS/submodule content silently (documented); compare the rest
				if want[f.name] && !dvalid[f.name] && !accounted(dcf.Omitted, f.name) && !accounted(dcf.Invalid, f.name) {
					res.Fail = fmt.Sprintf("CheckDir does not account for %q which CheckFiles lists as valid", f.name)
					return
				}
				if dvalid[f.name] && !want[f.name] {
					res.Fail = fmt.Sprintf("CheckDir lists %q as valid, CheckFiles does not (invalid=%v omitted=%v)", f.name, cf.Invalid, cf.Omitted)
					return
				}
			}
			// CreateFromDir must archive exactly what CheckDir calls valid
			if dcf.Err() == nil {
				var dbuf bytes.Buffer
				if err := modzip.CreateFromDir(&dbuf, mv, dir); err != nil {
					res.Fail = fmt.Sprintf("CheckDir accepts the directory but CreateFromDir fails: %v\nfiles: %q", err, names2(files))
					return
				}
				_, _, zc, zerr := modzip.CheckZip(mv, bytes.NewReader(dbuf.Bytes()), int64(dbuf.Len()))
				if zerr != nil || zc.Err() != nil {
					res.Fail = fmt.Sprintf("archive emitted by CreateFromDir fails CheckZip: %v / %v", zerr, zc.Err())
					return
				}
				var dv []string
				for v := range dvalid {
					dv = append(dv, v)
				}
				if fmt.Sprint(sorted(zc.Valid)) != fmt.Sprint(sorted(dv)) {
					res.Fail = fmt.Sprintf("CreateFromDir archived %q but CheckDir lists %q as valid\nfiles: %q", sorted(zc.Valid), sorted(dv), names2(files))
					return
				}
			}
			res.Classes = append(res.Classes, "dir-compared")
		}
	}
	return
}

// simpleName: lower-case letters, digits, '-', '.', '/' only, a .cue file, no special directories.
func simpleName(n string) bool {
	if !strings.HasSuffix(n, ".cue") || strings.Contains(n, "cue.mod") || strings.Contains(n, "vendor") || strings.HasPrefix(n, ".") || strings.Contains(n, "/.") {
		return false
	}
	for _, r := range n {
		if !(r >= 'a' && r <= 'z' || r >= '0' && r <= '9' || r == '/' || r == '.' || r == '-') {
			return false
		}
	}
	return !strings.Contains(n, "..") && !strings.Contains(n, "//")
}

func plain(n string) bool {
	for _, r := range n {
		if !(r >= 'a' && r <= 'z' || r == '/' || r == '.') {
			return false
		}
	}
	return true
}

func names2(fs []memFile) []string {
	var s []string
	for _, f := range fs {
		s = append(s, f.name)
	}
	return s
}

func sorted(s []string) []string {
	c := append([]string{}, s...)
	sort.Strings(c)
	return c
}

func genTree(t *rapid.T) TreeCase {
	c := TreeCase{Files: []File{{"cue.mod/module.cue", modFile}}}
	if rapid.IntRange(0, 20).Draw(t, "nomod") == 0 {
		c.Files = nil
	}
	n := rapid.IntRange(0, 6).Draw(t, "n")
	good := []string{"sub.cue", "subway/y.cue", "sub-x/z.cue", "sub/inner.cue", "b.cue", "b/cue.mod/module.cue", "bc/d.cue", ".git", "sub/.git", ".hg", "zz/last.cue", "a.cue", "b/c.cue", "b/d/e.cue", "x/y.cue", "LICENSE", "README.md", "é.cue", "data.json", "sub/z.cue", "A.cue", "b/C.cue", ".hidden", "cue.mod/pkg/x.cue", "vendor/x.cue", "sub/cue.mod/module.cue", ".git/config", "name with space"}
	for i := 0; i < n; i++ {
		name := rapid.SampledFrom(good).Draw(t, "gname")
		if rapid.IntRange(0, 3).Draw(t, "hostile") == 0 {
			name = rapid.SampledFrom(names).Draw(t, "hname")
		}
		c.Files = append(c.Files, File{name, strings.Repeat("d", rapid.IntRange(0, 30).Draw(t, "size"))})
	}
	return c
}

func TestTree(t *testing.T) {
	evid.Main(t, evid.Check[TreeCase]{Name: "tree", Gen: genTree, Run: runTree})
}
