// Package c18: workflow tasks run once, after everything they depend on, under every schedule.
package c18

import (
	"context"
	"fmt"
	"strings"
	"sync"
	"testing"
	"time"

	"cuelang.org/go/cue"
	"cuelang.org/go/cue/cuecontext"
	"cuelang.org/go/tools/flow"
	"cuelang.org/go/verifh/evid"
	"pgregory.net/rapid"
)

type Dep struct {
	On   int
	Kind string // direct mid nested computed
}

type Task struct {
	Deps   []Dep
	Late   int  // -1, or index of the task whose result makes this task appear
	InList bool // the task is an element of the list "lst" instead of a named field
}

type Case struct {
	Tasks []Task
	Fail  int   // index of the task that fails, -1 for none
	Abort bool  // the failing task returns flow.ErrAbort instead of an ordinary error
	Cycle []int // two task indices made mutually dependent, or nil
	Picks []int // which of the currently running tasks is released next (mod their number)
	Burst []bool
}

func name(i int) string { return fmt.Sprintf("t%d", i) }

// ref returns the CUE expression naming task j.
func ref(c Case, j int) string {
	if !c.Tasks[j].InList {
		return fmt.Sprintf("t%d", j)
	}
	k := 0
	for i := 0; i < j; i++ {
		if c.Tasks[i].InList {
			k++
		}
	}
	return fmt.Sprintf("lst[%d]", k)
}

func source(c Case) string {
	var src strings.Builder
	var list []string
	for i, t := range c.Tasks {
		terms := []string{"0"}
		for _, d := range t.Deps {
			switch d.Kind {
			case "mid":
				fmt.Fprintf(&src, "mid%d_%d: %s.out\n", i, d.On, ref(c, d.On))
				terms = append(terms, fmt.Sprintf("mid%d_%d", i, d.On))
			case "nested":
				fmt.Fprintf(&src, "aux: m%d_%d: {v: %s.out, w: 1}\n", i, d.On, ref(c, d.On))
				terms = append(terms, fmt.Sprintf("aux.m%d_%d.v", i, d.On))
			case "computed":
				terms = append(terms, fmt.Sprintf("(%s.out * 1 + 0)", ref(c, d.On)))
			default:
				terms = append(terms, fmt.Sprintf("%s.out", ref(c, d.On)))
			}
		}
		if c.Cycle != nil && len(c.Cycle) == 2 && i == c.Cycle[0] {
			terms = append(terms, fmt.Sprintf("%s.out", ref(c, c.Cycle[1])))
		}
		decl := fmt.Sprintf("t%d: {kind: \"task\", idx: %d, in: %s, out: int, outs: [...int]}\n", i, i, strings.Join(terms, " + "))
		if t.InList {
			list = append(list, fmt.Sprintf("{kind: \"task\", idx: %d, in: %s, out: int, outs: [...int]}", i, strings.Join(terms, " + ")))
			continue
		}
		if t.Late >= 0 {
			// the task only comes into existence once the guard task has filled its (initially empty) list
			decl = fmt.Sprintf("for _ in %s.outs {\n\t%s}\n", ref(c, t.Late), decl)
		}
		src.WriteString(decl)
	}
	if len(list) > 0 {
		fmt.Fprintf(&src, "lst: [\n\t%s,\n]\n", strings.Join(list, ",\n\t"))
	}
	return src.String()
}

// ancestors returns the transitive dependency closure (including Late guards).
func ancestors(c Case) [][]bool {
	n := len(c.Tasks)
	a := make([][]bool, n)
	for i := range a {
		a[i] = make([]bool, n)
		for _, d := range c.Tasks[i].Deps {
			a[i][d.On] = true
		}
		if c.Tasks[i].Late >= 0 {
			a[i][c.Tasks[i].Late] = true
		}
	}
	for k := 0; k < n; k++ {
		for i := 0; i < n; i++ {
			for j := 0; j < n; j++ {
				if a[i][k] && a[k][j] {
					a[i][j] = true
				}
			}
		}
	}
	return a
}

type harness struct {
	mu      sync.Mutex
	c       Case
	started map[int]int
	done    map[int]bool
	failed  map[int]bool
	gates   map[int]chan struct{}
	events  chan int
	log     []string
	viol    []string
	expect  map[int]int64
}

func (h *harness) runner(idx int) flow.Runner {
	return flow.RunnerFunc(func(t *flow.Task) error {
		h.mu.Lock()
		h.started[idx]++
		if h.started[idx] > 1 {
			h.viol = append(h.viol, fmt.Sprintf("%s started %d times", name(idx), h.started[idx]))
		}
		sum := int64(idx)
		want := int64(0)
		for _, d := range h.c.Tasks[idx].Deps {
			if !h.done[d.On] {
				h.viol = append(h.viol, fmt.Sprintf("%s started before %s completed successfully", name(idx), name(d.On)))
			}
			sum += h.expect[d.On]
			want += h.expect[d.On]
		}
		if l := h.c.Tasks[idx].Late; l >= 0 && !h.done[l] {
			h.viol = append(h.viol, fmt.Sprintf("%s (guarded by %s.out) started before %s completed", name(idx), name(l), name(l)))
		}
		h.log = append(h.log, "start "+name(idx))
		g := h.gates[idx]
		h.mu.Unlock()
		// the task's view of its inputs must be the concrete sum of what its dependencies filled
		in := t.Value().LookupPath(cue.ParsePath("in"))
		got, err := in.Int64()
		h.mu.Lock()
		if err != nil || got != want {
			h.viol = append(h.viol, fmt.Sprintf("%s sees in=%v (err %v), want %d", name(idx), in, err, want))
		}
		h.expect[idx] = sum
		h.mu.Unlock()
		h.events <- idx
		<-g
		if h.c.Fail == idx {
			h.mu.Lock()
			h.failed[idx] = true
			h.log = append(h.log, "fail "+name(idx))
			h.mu.Unlock()
			if h.c.Abort {
				return fmt.Errorf("%s gives up: %w", name(idx), flow.ErrAbort)
			}
			return fmt.Errorf("injected failure of %s", name(idx))
		}
		h.mu.Lock()
		h.done[idx] = true
		h.log = append(h.log, "finish "+name(idx))
		h.mu.Unlock()
		return t.Fill(map[string]any{"out": sum, "outs": []int64{sum}})
	})
}

func run(c Case) (res evid.Result) {
	defer func() {
		if r := recover(); r != nil {
			res.Fail = fmt.Sprintf("panic: %v\n%s", r, source(c))
		}
	}()
	n := len(c.Tasks)
	src := source(c)
	h := &harness{c: c, started: map[int]int{}, done: map[int]bool{}, failed: map[int]bool{}, gates: map[int]chan struct{}{}, events: make(chan int, 100), expect: map[int]int64{}}
	for i := 0; i < n; i++ {
		h.gates[i] = make(chan struct{})
	}
	v := cuecontext.New().CompileString(src)
	if v.Err() != nil {
		res.Fail = fmt.Sprintf("generated workflow does not compile: %v\n%s", v.Err(), src)
		return
	}
	ctl := flow.New(nil, v, func(v cue.Value) (flow.Runner, error) {
		k := v.LookupPath(cue.ParsePath("kind"))
		if s, err := k.String(); err != nil || s != "task" {
			return nil, nil
		}
		idx, _ := v.LookupPath(cue.ParsePath("idx")).Int64()
		return h.runner(int(idx)), nil
	})
	errc := make(chan error, 1)
	go func() { errc <- ctl.Run(context.Background()) }()

	anc := ancestors(c)
	var running []int
	released, pick := 0, 0
	maxParallel := 0
	var runErr error
	finished := false
	deadline := time.After(60 * time.Second)
loop:
	for !finished {
		settle := time.After(2 * time.Millisecond)
	drain:
		for {
			select {
			case i := <-h.events:
				running = append(running, i)
				settle = time.After(2 * time.Millisecond)
			case runErr = <-errc:
				finished = true
				break loop
			case <-settle:
				break drain
			case <-deadline:
				res.Fail = fmt.Sprintf("Run did not return within 60 s although every started task was released (deadlock?) released=%d running=%v log=%v\n%s", released, running, h.log, src)
				for _, g := range h.gates {
					select {
					case <-g:
					default:
						close(g)
					}
				}
				return
			}
		}
		if len(running) == 0 {
			continue
		}
		maxParallel = max(maxParallel, len(running))
		k := 1
		if pick < len(c.Burst) && c.Burst[pick] {
			k = len(running) // release everything that is running at once: true races on completion
		}
		for j := 0; j < k && len(running) > 0; j++ {
			p := 0
			if pick < len(c.Picks) {
				p = c.Picks[pick] % len(running)
			}
			pick++
			i := running[p]
			running = append(running[:p], running[p+1:]...)
			close(h.gates[i])
			released++
		}
	}
	// let stragglers go
	for i, g := range h.gates {
		select {
		case <-g:
		default:
			close(g)
			_ = i
		}
	}
	h.mu.Lock()
	defer h.mu.Unlock()
	if len(h.viol) > 0 {
		res.Fail = fmt.Sprintf("%v\nlog=%v\n%s", h.viol, h.log, src)
		return
	}
	res.Classes = []string{}
	switch {
	case c.Cycle != nil:
		res.Classes = append(res.Classes, "cycle")
		if runErr == nil {
			res.Fail = fmt.Sprintf("a dependency cycle between %v was not reported (Run returned nil)\nlog=%v\n%s", c.Cycle, h.log, src)
			return
		}
	case c.Fail >= 0 && h.started[c.Fail] > 0:
		res.Classes = append(res.Classes, "injected-failure")
		if runErr == nil && !c.Abort { // ErrAbort is documented as "not an error": either outcome of Run is accepted
			res.Fail = fmt.Sprintf("task %s failed but Run returned nil\n%s", name(c.Fail), src)
			return
		}
		if c.Abort {
			res.Classes = append(res.Classes, "abort")
		}
		for i := 0; i < n; i++ {
			if anc[i][c.Fail] && h.started[i] > 0 {
				res.Fail = fmt.Sprintf("%s depends on the failed %s but was started\nlog=%v\n%s", name(i), name(c.Fail), h.log, src)
				return
			}
		}
	default:
		res.Classes = append(res.Classes, "all-succeed")
		if runErr != nil {
			res.Fail = fmt.Sprintf("Run failed: %v\nlog=%v\n%s", runErr, h.log, src)
			return
		}
		for i := 0; i < n; i++ {
			if h.started[i] != 1 {
				res.Fail = fmt.Sprintf("%s ran %d times in an acyclic workflow without failure\nlog=%v\n%s", name(i), h.started[i], h.log, src)
				return
			}
			out, err := ctl.Value().LookupPath(cue.ParsePath(ref(c, i) + ".out")).Int64()
			if err != nil || out != h.expect[i] {
				res.Fail = fmt.Sprintf("final configuration has %s.out = %v (err %v), want %d\nlog=%v\n%s", name(i), out, err, h.expect[i], h.log, src)
				return
			}
		}
	}
	diamond := false
	indirect := false
	for i := range c.Tasks {
		if len(c.Tasks[i].Deps) >= 2 {
			diamond = true
		}
		for _, d := range c.Tasks[i].Deps {
			if d.Kind != "direct" {
				indirect = true
			}
		}
	}
	res.NonTrivial = (diamond || indirect) && maxParallel >= 2
	if maxParallel >= 2 {
		res.Classes = append(res.Classes, "parallel")
	}
	res.Key = src + fmt.Sprint(c.Picks, c.Burst, c.Fail)
	return
}

func gen(t *rapid.T) Case {
	n := rapid.IntRange(2, 10).Draw(t, "n")
	c := Case{Fail: -1}
	listy := rapid.IntRange(0, 2).Draw(t, "listy") == 0
	for i := 0; i < n; i++ {
		tk := Task{Late: -1}
		for j := 0; j < i; j++ {
			if rapid.IntRange(0, 2).Draw(t, "dep") == 0 && c.Tasks[j].Late < 0 {
				tk.Deps = append(tk.Deps, Dep{On: j, Kind: rapid.SampledFrom([]string{"direct", "direct", "mid", "nested", "computed"}).Draw(t, "kind")})
			}
		}
		tk.InList = listy && rapid.Bool().Draw(t, "inlist")
		if !tk.InList && i > 0 && rapid.IntRange(0, 6).Draw(t, "late") == 0 {
			if l := rapid.IntRange(0, i-1).Draw(t, "lateon"); c.Tasks[l].Late < 0 {
				tk.Late = l
			}
		}
		c.Tasks = append(c.Tasks, tk)
	}
	switch rapid.IntRange(0, 9).Draw(t, "mode") {
	case 0, 1:
		c.Fail = rapid.IntRange(0, n-1).Draw(t, "fail")
		c.Abort = rapid.Bool().Draw(t, "abort")
	case 2:
		a := rapid.IntRange(0, n-2).Draw(t, "cyca")
		b := rapid.IntRange(a+1, n-1).Draw(t, "cycb")
		// b depends on a already or not; make a depend on b and b on a
		if c.Tasks[a].Late < 0 && c.Tasks[b].Late < 0 {
			c.Tasks[b].Deps = append(c.Tasks[b].Deps, Dep{On: a, Kind: "direct"})
			c.Cycle = []int{a, b}
		}
	}
	c.Picks = rapid.SliceOfN(rapid.IntRange(0, 9), n, n).Draw(t, "picks")
	c.Burst = rapid.SliceOfN(rapid.Bool(), n, n).Draw(t, "burst")
	return c
}

func TestFlow(t *testing.T) {
	evid.Main(t, evid.Check[Case]{Name: "flow", Gen: gen, Run: run})
}
