#!/usr/bin/env python3
"""Driver for the /verif checks.

  driver.py <ID> quick|thorough      run the registered check of one property
  driver.py <ID> --replay <file>     re-run one saved case (no rapid involved)
  driver.py --setup                  build every test binary once (warms the cache)

Exit 0: property held on everything explored (KNOWN-FINDING lines may be printed).
Exit 1: at least one `VIOLATION property=<id> replay=<path>` line was printed.
Exit 2: infrastructure trouble (build failure, every shard inconclusive).
"""
import hashlib
import json
import os
import re
import shutil
import signal
import subprocess
import sys
import tempfile
import time

ROOT = os.path.dirname(os.path.abspath(__file__))
sys.path.insert(0, ROOT)
from props import PROPS  # noqa: E402

REPO = os.environ.get("VERIF_REPO", "/repo")
H = os.path.join(ROOT, "h")
BIN = os.path.join(ROOT, "bin")
MASK = (1 << 64) - 1


def splitmix64(x):
    x = (x + 0x9E3779B97F4A7C15) & MASK
    z = x
    z = ((z ^ (z >> 30)) * 0xBF58476D1CE4E5B9) & MASK
    z = ((z ^ (z >> 27)) * 0x94D049BB133111EB) & MASK
    return z ^ (z >> 31)


def shard_seed(seed, pid, sub, i):
    h = int.from_bytes(hashlib.sha256(f"{pid}/{sub}".encode()).digest()[:8], "big")
    return splitmix64(splitmix64(seed & MASK) ^ h ^ (i * 0x632BE59BD9B4E019 & MASK)) | 1


def go_binary():
    """The repository needs the Go version named in its go.mod; the default go on
    PATH is older and switches toolchains only with GOTOOLCHAIN=auto and a usable
    GOSUMDB.  Use the cached toolchain directly when it is there."""
    ver = None
    try:
        for line in open(os.path.join(REPO, "go.mod")):
            m = re.match(r"^go\s+(\S+)", line)
            if m:
                ver = m.group(1)
                break
    except OSError:
        pass
    modcache = os.path.expanduser("~/go/pkg/mod")
    if ver:
        cand = os.path.join(modcache, f"golang.org/toolchain@v0.0.1-go{ver}.linux-amd64/bin/go")
        if os.path.exists(cand):
            return cand, "local"
    return shutil.which("go") or "go", "auto"


def go_env():
    env = dict(os.environ)
    gobin, tc = go_binary()
    env["GOFLAGS"] = "-mod=mod"
    env["GOPROXY"] = "off"
    env["GOTOOLCHAIN"] = tc
    if tc == "local":
        env["GOSUMDB"] = "off"
    else:
        env.pop("GOSUMDB", None)
    env["GONOSUMDB"] = "*"
    env["GONOSUMCHECK"] = "1"
    env["GOFLAGS"] = "-mod=mod"
    env.pop("GOWORK", None)
    env["GOWORK"] = "off"
    return gobin, env


EXTRA_SUM = """pgregory.net/rapid v1.3.0 h1:vBvO0VSqti75J1jjYqpgPNBLKMd1+gxa9fYo7vk/Exc=
pgregory.net/rapid v1.3.0/go.mod h1:dPlE4OBBxgXPqkP79flB6sJL1dx5azpI7HQ9MY9Z7uk=
"""


def modfile():
    """go.mod/go.sum used for every build: the harness module with cuelang.org/go
    replaced by the repository working tree; go.sum is the repository's own plus rapid."""
    tag = hashlib.sha1(REPO.encode()).hexdigest()[:8]
    d = os.path.join(BIN, "mod-" + tag)
    os.makedirs(d, exist_ok=True)
    src = open(os.path.join(H, "go.mod")).read()
    src = re.sub(r"replace cuelang.org/go => \S+", "replace cuelang.org/go => " + REPO, src)
    # mirror the repository's own requirements so that the same versions are selected
    with open(os.path.join(d, "go.mod"), "w") as f:
        f.write(src)
    sums = open(os.path.join(REPO, "go.sum")).read()
    with open(os.path.join(d, "go.sum"), "w") as f:
        f.write(sums + EXTRA_SUM)
    return os.path.join(d, "go.mod"), tag


def build(pid, prop):
    gobin, env = go_env()
    mf, tag = modfile()
    out = os.path.join(BIN, f"{pid}-{tag}.test")
    cmd = [gobin, "test", "-c", "-tags", "verif", "-modfile", mf, "-o", out]
    if prop.get("race"):
        cmd.append("-race")
    cmd.append("./" + prop["pkg"])
    t0 = time.time()
    p = subprocess.run(cmd, cwd=H, env=env, stdout=subprocess.PIPE, stderr=subprocess.STDOUT, text=True)
    if p.returncode != 0:
        print(p.stdout)
        print(f"BUILD-FAILED property={pid} (exit 2: not a verdict)")
        sys.exit(2)
    extra = {}
    for name, pkgpath in prop.get("tools", {}).items():
        o = os.path.join(BIN, f"{name}-{tag}")
        if pkgpath.startswith("repo:"):
            c = [gobin, "build", "-o", o, "./" + pkgpath[5:]]
            e = dict(env)
            e["GOFLAGS"] = "-mod=readonly" if False else "-mod=mod"
            # build the repository's own command from a scratch modfile so that
            # -mod=mod never rewrites /repo/go.sum
            sd = os.path.join(BIN, "repomod-" + tag)
            os.makedirs(sd, exist_ok=True)
            shutil.copy(os.path.join(REPO, "go.mod"), os.path.join(sd, "go.mod"))
            shutil.copy(os.path.join(REPO, "go.sum"), os.path.join(sd, "go.sum"))
            c[2:2] = ["-modfile", os.path.join(sd, "go.mod")]
            q = subprocess.run(c, cwd=REPO, env=e, stdout=subprocess.PIPE, stderr=subprocess.STDOUT, text=True)
        else:
            c = [gobin, "build", "-tags", "verif", "-modfile", mf, "-o", o, "./" + pkgpath]
            if prop.get("race_tools"):
                c.insert(2, "-race")
            q = subprocess.run(c, cwd=H, env=env, stdout=subprocess.PIPE, stderr=subprocess.STDOUT, text=True)
        if q.returncode != 0:
            print(q.stdout)
            print(f"BUILD-FAILED property={pid} tool={name} (exit 2: not a verdict)")
            sys.exit(2)
        extra["VERIF_TOOL_" + name.upper()] = o
    return out, time.time() - t0, extra


def run_proc(cmd, env, cwd, timeout, logpath):
    with open(logpath, "wb") as log:
        p = subprocess.Popen(cmd, env=env, cwd=cwd, stdout=log, stderr=subprocess.STDOUT, start_new_session=True)
        return p


def replay_one(binary, prop, pid, path, extra_env, timeout=300):
    """Run one replay file through the test binary. Returns (status, output):
    status in pass|fail|crash|nomatch|timeout."""
    _, env = go_env()
    env.update(extra_env)
    env["VERIF_MODE"] = "replay"
    env["VERIF_REPLAY"] = os.path.abspath(path)
    env["VERIF_ROOT"] = ROOT
    env["VERIF_REPO_DIR"] = REPO
    if prop.get("race"):
        env["GORACE"] = "halt_on_error=1 exitcode=66"
    d = tempfile.mkdtemp(prefix=f"vf-{pid}-rp-")
    try:
        try:
            rf = json.load(open(path))
        except Exception as e:  # noqa: BLE001
            return "nomatch", f"unreadable replay file: {e}"
        test = None
        for sub in prop["subs"]:
            if sub["name"] == rf.get("check"):
                test = sub["test"]
        if test is None:
            return "nomatch", f"no check named {rf.get('check')!r} in {pid}"
        cmd = [binary, "-test.run", "^" + test + "$", "-test.timeout", f"{timeout}s", "-test.v"]
        try:
            p = subprocess.run(cmd, env=env, cwd=d, stdout=subprocess.PIPE, stderr=subprocess.STDOUT, text=True, timeout=timeout + 30, errors="replace")
        except subprocess.TimeoutExpired as e:
            return "timeout", (e.stdout or b"").decode("utf8", "replace") if isinstance(e.stdout, bytes) else (e.stdout or "")
        out = p.stdout
        if "REPLAY-PASS" in out and p.returncode == 0:
            return "pass", out
        if "REPLAY-FAIL" in out:
            return "fail", out
        if "test timed out" in out:
            return "timeout", out
        if p.returncode != 0:
            return "crash", out
        return "nomatch", out
    finally:
        shutil.rmtree(d, ignore_errors=True)


def load_known(pid):
    p = os.path.join(ROOT, "known_findings.json")
    if not os.path.exists(p):
        return []
    return [k for k in json.load(open(p)).get("findings", []) if k["property"] == pid]


def canon_case(c):
    return json.dumps(c, sort_keys=True, separators=(",", ":"))


def main():
    if len(sys.argv) >= 2 and sys.argv[1] == "--setup":
        rc = 0
        for pid, prop in PROPS.items():
            t0 = time.time()
            build(pid, prop)
            print(f"built {pid} in {time.time()-t0:.1f}s", flush=True)
        sys.exit(rc)
    if len(sys.argv) < 3:
        print(__doc__)
        sys.exit(2)
    pid = sys.argv[1]
    if pid not in PROPS:
        print(f"unknown property {pid}")
        sys.exit(2)
    prop = PROPS[pid]
    t_start = time.time()
    os.makedirs(BIN, exist_ok=True)
    binary, build_s, tool_env = build(pid, prop)

    if sys.argv[2] == "--replay":
        st, out = replay_one(binary, prop, pid, sys.argv[3], tool_env)
        print(out[-4000:])
        if st in ("fail", "crash"):
            print(f"VIOLATION property={pid} replay={os.path.abspath(sys.argv[3])}")
            sys.exit(1)
        if st == "pass":
            print("replay passes")
            sys.exit(0)
        print(f"replay inconclusive: {st}")
        sys.exit(2)

    tier = sys.argv[2]
    if tier not in ("quick", "thorough"):
        print("tier must be quick or thorough")
        sys.exit(2)
    seed = int(os.environ.get("VERIF_SEED", "1") or "1")
    violations = []  # (replay path, message)
    known_lines = []
    notes = []
    inconclusive = []

    replay_dir = os.path.join(ROOT, "replays", pid)
    os.makedirs(replay_dir, exist_ok=True)

    # 1. known findings: replay each listed witness, say so if it still fails
    known = load_known(pid)
    open_known = []
    for k in known:
        if not k.get("witness_file"):
            continue  # a repaired finding recorded without a replayable witness
        wf = os.path.join(ROOT, "known", k["witness_file"])
        if k.get("status") == "fixed":
            st, out = replay_one(binary, prop, pid, wf, tool_env)
            if st in ("fail", "crash"):
                dst = os.path.join(replay_dir, "regressed-" + os.path.basename(wf))
                shutil.copy(wf, dst)
                violations.append((dst, f"fixed finding {k['id']} is back: {k['what']}"))
            elif st != "pass":
                notes.append(f"fixed finding {k['id']}: replay {st}")
            continue
        open_known.append(k)
        st, out = replay_one(binary, prop, pid, wf, tool_env)
        if st in ("fail", "crash", "timeout"):
            known_lines.append(f"KNOWN-FINDING: property={pid} {k['id']} {k['what']}")
        else:
            notes.append(f"known finding {k['id']} does not reproduce any more ({st})")
    for line in known_lines:
        print(line, flush=True)

    # 2. corpus: saved inputs that must pass
    cdir = os.path.join(ROOT, "corpus", pid)
    corpus_n = 0
    if os.path.isdir(cdir):
        for fn in sorted(os.listdir(cdir)):
            if not fn.endswith(".json"):
                continue
            corpus_n += 1
            st, out = replay_one(binary, prop, pid, os.path.join(cdir, fn), tool_env)
            if st in ("fail", "crash"):
                violations.append((os.path.join(cdir, fn), "corpus input fails: " + last_lines(out)))
            elif st != "pass":
                notes.append(f"corpus {fn}: {st}")

    # 3. generated search, one OS process per shard
    scratch = tempfile.mkdtemp(prefix=f"vf-{pid}-")
    merged = {}
    try:
        jobs = []
        for sub in prop["subs"]:
            n = sub.get(tier)
            if n is None or n == 0:
                continue
            shards = sub.get("shards_" + tier, sub.get("shards", 16))
            for i in range(shards):
                jobs.append((sub, i, shards, n))
        maxpar = prop.get("parallel", 16)
        running = []
        done = []
        tmo = prop.get("timeout_" + tier, 900 if tier == "quick" else 4 * 3600)
        _, env0 = go_env()
        env0.update(tool_env)

        def start(job):
            sub, i, shards, n = job
            d = os.path.join(scratch, f"{sub['name']}-{i}")
            os.makedirs(d)
            env = dict(env0)
            s = shard_seed(seed, pid, sub["name"], i)
            env.update({
                "VERIF_MODE": "search", "VERIF_TIER": tier, "VERIF_SHARD": str(i), "VERIF_NSHARDS": str(shards),
                "VERIF_STATS": os.path.join(d, "stats.json"), "VERIF_FAILOUT": os.path.join(d, "fail.json"),
                "VERIF_JOURNAL": os.path.join(d, "journal.json"), "VERIF_SHARDSEED": str(s),
                "VERIF_SEED": str(seed), "VERIF_ROOT": ROOT, "VERIF_REPO_DIR": REPO, "VERIF_N": str(n),
                "VERIF_SCRATCH": d,
            })
            if prop.get("race"):
                env["GORACE"] = f"halt_on_error=1 exitcode=66 log_path={os.path.join(d, 'race')}"
            cmd = [binary, "-test.run", "^" + sub["test"] + "$", "-test.timeout", f"{tmo}s",
                   f"-rapid.checks={n}", f"-rapid.seed={s}",
                   f"-rapid.shrinktime={sub.get('shrinktime', '20s')}", "-rapid.nofailfile"]
            log = os.path.join(d, "log.txt")
            p = run_proc(cmd, env, d, tmo, log)
            return dict(job=job, proc=p, dir=d, t0=time.time(), seed=s)

        pending = list(jobs)
        while pending or running:
            while pending and len(running) < maxpar:
                running.append(start(pending.pop(0)))
            time.sleep(0.05)
            for r in list(running):
                rc = r["proc"].poll()
                if rc is None:
                    if time.time() - r["t0"] > tmo + 60:
                        try:
                            os.killpg(r["proc"].pid, signal.SIGKILL)
                        except OSError:
                            pass
                        r["proc"].wait()
                        r["rc"] = -9
                        r["timed_out"] = True
                        running.remove(r)
                        done.append(r)
                    continue
                r["rc"] = rc
                running.remove(r)
                done.append(r)

        # 4. collect
        for r in done:
            sub, i, shards, n = r["job"]
            d = r["dir"]
            name = sub["name"]
            m = merged.setdefault(name, dict(cases=0, skipped=0, nontrivial=0, classes={}, excluded={}, samples=[],
                                             hashes=set(), extra={}, exhaustive=True, shards=0, shards_ok=0, wall=0.0))
            m["shards"] += 1
            st = None
            try:
                st = json.load(open(os.path.join(d, "stats.json")))
            except Exception:  # noqa: BLE001
                pass
            log = ""
            try:
                log = open(os.path.join(d, "log.txt"), errors="replace").read()
            except OSError:
                pass
            if st:
                m["cases"] += st["cases"]
                m["skipped"] += st["skipped"]
                m["nontrivial"] += st["nontrivial"]
                for k, v in st["classes"].items():
                    m["classes"][k] = m["classes"].get(k, 0) + v
                for k, v in st["excluded"].items():
                    m["excluded"][k] = m["excluded"].get(k, 0) + v
                for k, v in (st.get("extra") or {}).items():
                    m["extra"][k] = m["extra"].get(k, 0) + v
                if len(m["samples"]) < 8:
                    have = {s["class"] for s in m["samples"]}
                    for s in st["samples"] or []:
                        if s["class"] not in have and len(m["samples"]) < 8:
                            m["samples"].append(s)
                            have.add(s["class"])
                m["hashes"].update(st["hashes"] or [])
                m["exhaustive"] = m["exhaustive"] and st.get("exhaustive", False)
                m["wall"] = max(m["wall"], st.get("wall_s", 0))
            else:
                m["exhaustive"] = False
            failp = os.path.join(d, "fail.json")
            if os.path.exists(failp):
                handle_failure(pid, prop, binary, tool_env, failp, open_known, violations, known_lines, replay_dir, log, inconclusive)
                continue
            if r["rc"] == 0:
                m["shards_ok"] += 1
                # rapid prints "OK, passed N tests"; fewer than requested means the deadline hit
                continue
            # abnormal end without a recorded failure: crash or timeout
            jp = os.path.join(d, "journal.json")
            timed = r.get("timed_out") or "test timed out" in log
            if os.path.exists(jp):
                cj = json.load(open(jp))
                rp = os.path.join(d, "crash.json")
                for fn in sorted(os.listdir(d)):
                    if fn.startswith("race."):
                        try:
                            log += "\n" + open(os.path.join(d, fn), errors="replace").read()[:6000]
                        except OSError:
                            pass
                json.dump({"property": pid, "check": name, "case": cj,
                           "message": ("timeout" if timed else "crash") + " while running this case: " + last_lines(log, 15)}, open(rp, "w"), indent=1)
                if timed:
                    st2, out2 = replay_one(binary, prop, pid, rp, tool_env, timeout=prop.get("case_timeout", 120))
                    if st2 == "timeout" and prop.get("timeout_is_violation"):
                        handle_failure(pid, prop, binary, tool_env, rp, open_known, violations, known_lines, replay_dir, log, inconclusive, confirmed=True)
                    else:
                        inconclusive.append(f"{name} shard {i}: timed out ({st2} on replay); case kept in evidence")
                        merged[name].setdefault("slow", []).append(cj)
                else:
                    handle_failure(pid, prop, binary, tool_env, rp, open_known, violations, known_lines, replay_dir, log, inconclusive)
            else:
                dst = os.path.join(replay_dir, f"{name}-shard{i}-log.txt")
                open(dst, "w").write(log[-20000:])
                if "FAIL" in log and not timed and prop.get("log_failure_is_violation", True) and "--- FAIL" in log:
                    violations.append((dst, "test failed without a recorded case: " + last_lines(log, 8)))
                else:
                    inconclusive.append(f"{name} shard {i}: exit {r['rc']} without journal; log {dst}")
    finally:
        shutil.rmtree(scratch, ignore_errors=True)

    # 5. evidence
    wall = time.time() - t_start
    ev_cases = sum(m["cases"] for m in merged.values())
    ev_nt = sum(len(m["hashes"]) for m in merged.values())
    samples = []
    per = {}
    classes = {}
    excluded = {}
    for name, m in merged.items():
        for s in m["samples"][:4]:
            samples.append({"check": name, "class": s["class"], "case": s["case"], **({"note": s["note"]} if s.get("note") else {})})
        per[name] = dict(evaluations=m["cases"], skipped_outside_domain=m["skipped"], nontrivial=m["nontrivial"],
                         distinct_nontrivial=len(m["hashes"]), shards=m["shards"], shards_completed=m["shards_ok"],
                         exhaustive=bool(m["exhaustive"] and m["shards_ok"] == m["shards"] and m["cases"] > 0),
                         classes=m["classes"], excluded=m["excluded"], extra=m["extra"], max_shard_wall_s=round(m["wall"], 1))
        if m.get("slow"):
            per[name]["slow_or_inconclusive"] = m["slow"][:5]
        for k, v in m["classes"].items():
            classes[name + "/" + k] = v
        for k, v in m["excluded"].items():
            excluded[k] = excluded.get(k, 0) + v
    all_exh = bool(per) and all(p["exhaustive"] for p in per.values())
    ev = {
        "property_id": pid, "tier": tier, "seed": seed, "level": prop.get("level", "exploration"),
        "coverage": {
            "evaluations": ev_cases, "distinct_nontrivial": ev_nt, "rule": prop["rule"], "samples": samples,
            "exhaustive": all_exh, "per_check": per, "classes": classes, "excluded": excluded,
            "known_findings_replayed": [k["id"] for k in open_known], "known_finding_lines": known_lines,
            "corpus_inputs_replayed": corpus_n, "inconclusive": inconclusive, "notes": notes,
            "repo": REPO, "build_s": round(build_s, 1),
        },
        "assumptions": prop.get("assumptions", []),
        "wall_s": round(wall, 1),
        "violations": len(violations),
    }
    os.makedirs(os.path.join(ROOT, "evidence"), exist_ok=True)
    evp = os.path.join(ROOT, "evidence", pid + ".json")
    if os.environ.get("VERIF_EVIDENCE_DIR"):
        os.makedirs(os.environ["VERIF_EVIDENCE_DIR"], exist_ok=True)
        evp = os.path.join(os.environ["VERIF_EVIDENCE_DIR"], pid + ".json")
    json.dump(ev, open(evp, "w"), indent=1, default=str)

    for n in notes:
        print("NOTE:", n)
    for n in inconclusive:
        print("INCONCLUSIVE:", n)
    print(f"{pid} {tier}: {ev_cases} cases, {ev_nt} distinct non-trivial, {len(violations)} violations, "
          f"{len(known_lines)} known findings, wall {wall:.0f}s (build {build_s:.0f}s)")
    if violations:
        for path, msg in violations:
            print(f"VIOLATION property={pid} replay={path}")
            print("  " + msg.replace("\n", "\n  ")[:3000])
        sys.exit(1)
    total_shards = sum(m["shards"] for m in merged.values())
    ok_shards = sum(m["shards_ok"] for m in merged.values())
    if total_shards and ok_shards == 0:
        print("no shard completed: inconclusive")
        sys.exit(2)
    if ev_cases == 0:
        print("nothing was explored: inconclusive")
        sys.exit(2)
    sys.exit(0)


def last_lines(s, n=6):
    ls = [x for x in s.strip().splitlines() if x.strip()]
    return "\n".join(ls[-n:])


def handle_failure(pid, prop, binary, tool_env, failp, open_known, violations, known_lines, replay_dir, log, inconclusive, confirmed=False):
    rf = json.load(open(failp))
    rf["property"] = pid
    cc = canon_case(rf["case"])
    for k in open_known:
        try:
            kw = json.load(open(os.path.join(ROOT, "known", k["witness_file"])))
        except Exception:  # noqa: BLE001
            continue
        if kw.get("check") == rf["check"] and canon_case(kw["case"]) == cc:
            line = f"KNOWN-FINDING: property={pid} {k['id']} {k['what']} (found again by the search)"
            if line not in known_lines:
                known_lines.append(line)
                print(line)
            return
    hid = hashlib.sha1((rf["check"] + cc).encode()).hexdigest()[:12]
    dst = os.path.join(replay_dir, f"{rf['check']}-{hid}.json")
    json.dump(rf, open(dst, "w"), indent=1)
    if not confirmed:
        # confirm from a fresh process, without rapid
        st, out = replay_one(binary, prop, pid, dst, tool_env, timeout=prop.get("case_timeout", 300))
        if st == "pass" and not prop.get("schedule_dependent"):
            # passes on its own: flaky or state-dependent; report as inconclusive, keep the file
            inconclusive.append(f"{rf['check']}: failure did not reproduce from {dst} in a fresh process")
            open(dst + ".log.txt", "w").write(log[-20000:])
            return
    open(dst + ".log.txt", "w").write(log[-20000:])
    if all(v[0] != dst for v in violations):
        violations.append((dst, rf.get("message", "")))


if __name__ == "__main__":
    main()
